// hsfacts: rustc_private driver that dumps the type-checked program of the
// asonnino/hotstuff workspace crates as a JSON fact base (HIR expression trees
// with resolved callees, item facts, and pre-borrowck MIR control-flow facts).
//
// Invoked as RUSTC_WORKSPACE_WRAPPER: argv = [hsfacts, rustc, <rustc args>...].
// Output: $HSFACTS_OUT/<crate>.json (one write per process). Nothing is executed.
#![feature(rustc_private)]
#![allow(clippy::all)]

extern crate rustc_abi;
extern crate rustc_ast;
extern crate rustc_data_structures;
extern crate rustc_driver;
extern crate rustc_hir;
extern crate rustc_index;
extern crate rustc_interface;
extern crate rustc_middle;
extern crate rustc_session;
extern crate rustc_span;

mod hirdump;
mod json;
mod mirdump;

use json::Val;
use rustc_driver::{Callbacks, Compilation};
use rustc_interface::interface;
use rustc_middle::ty::TyCtxt;

struct Cb {
    out_dir: String,
}

impl Callbacks for Cb {
    fn config(&mut self, config: &mut interface::Config) {
        // Keep MIR close to the source: no optimisation passes matter for mir_built,
        // but make sure overflow checks are materialised as Assert terminators.
        config.opts.cg.overflow_checks = Some(true);
    }

    fn after_expansion<'tcx>(&mut self, _c: &interface::Compiler, tcx: TyCtxt<'tcx>) -> Compilation {
        let _g1 = rustc_middle::ty::print::NoTrimmedGuard::new();
        let _g2 = rustc_middle::ty::print::CrateNamePrefixGuard::new();
        let _g3 = rustc_middle::ty::print::NoVisibleGuard::new();
        let krate = tcx.crate_name(rustc_hir::def_id::LOCAL_CRATE).to_string();
        // MIR first (mir_built is stolen later by the normal pipeline).
        let mir = mirdump::dump(tcx);
        let (items, fns) = hirdump::dump(tcx);
        let mut feats: Vec<Val> = Vec::new();
        for (name, value) in tcx.sess.config.iter() {
            if name.as_str() == "feature" {
                if let Some(v) = value {
                    feats.push(Val::s(v.as_str()));
                }
            }
        }
        let is_test = tcx.sess.is_test_crate();
        let doc = Val::obj(vec![
            ("crate", Val::s(&krate)),
            ("features", Val::Arr(feats)),
            ("is_test", Val::Bool(is_test)),
            ("items", items),
            ("fns", fns),
            ("mir", mir),
        ]);
        let kind = if tcx.crate_types().iter().any(|t| matches!(t, rustc_session::config::CrateType::Executable)) {
            "bin"
        } else {
            "lib"
        };
        let path = format!("{}/{}.{}.json", self.out_dir, krate, kind);
        let mut s = String::new();
        doc.write(&mut s);
        std::fs::write(&path, s).expect("hsfacts: cannot write fact file");
        Compilation::Continue
    }
}

fn main() {
    let mut args: Vec<String> = std::env::args().collect();
    // RUSTC_WORKSPACE_WRAPPER convention: argv[1] is the path of the real rustc.
    if args.len() > 1 && (args[1].ends_with("rustc") || args[1].contains("/rustc")) {
        args.remove(1);
    }
    let out_dir = std::env::var("HSFACTS_OUT").unwrap_or_default();
    let is_probe = args.iter().any(|a| a == "-vV" || a == "--version" || a.starts_with("--print"));
    let has_crate = args.iter().any(|a| a == "--crate-name");
    if out_dir.is_empty() || is_probe || !has_crate {
        rustc_driver::run_compiler(&args, &mut rustc_driver::TimePassesCallbacks::default());
        return;
    }
    // build scripts are not part of the node
    let crate_name = args
        .iter()
        .position(|a| a == "--crate-name")
        .and_then(|i| args.get(i + 1))
        .cloned()
        .unwrap_or_default();
    if crate_name.starts_with("build_script") {
        rustc_driver::run_compiler(&args, &mut rustc_driver::TimePassesCallbacks::default());
        return;
    }
    std::fs::create_dir_all(&out_dir).ok();
    let mut cb = Cb { out_dir };
    rustc_driver::run_compiler(&args, &mut cb);
}
