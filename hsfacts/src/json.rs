// Minimal JSON value + writer (no external crates).
pub enum Val {
    Null,
    Bool(bool),
    Num(i128),
    Str(String),
    Arr(Vec<Val>),
    Obj(Vec<(&'static str, Val)>),
}

impl Val {
    pub fn s(x: &str) -> Val {
        Val::Str(x.to_string())
    }
    pub fn obj(v: Vec<(&'static str, Val)>) -> Val {
        Val::Obj(v)
    }
    pub fn opt(x: Option<Val>) -> Val {
        x.unwrap_or(Val::Null)
    }
    pub fn write(&self, out: &mut String) {
        match self {
            Val::Null => out.push_str("null"),
            Val::Bool(b) => out.push_str(if *b { "true" } else { "false" }),
            Val::Num(n) => out.push_str(&n.to_string()),
            Val::Str(s) => esc(s, out),
            Val::Arr(a) => {
                out.push('[');
                for (i, v) in a.iter().enumerate() {
                    if i > 0 {
                        out.push(',');
                    }
                    v.write(out);
                }
                out.push(']');
            }
            Val::Obj(o) => {
                out.push('{');
                let mut first = true;
                for (k, v) in o.iter() {
                    if matches!(v, Val::Null) {
                        continue;
                    }
                    if !first {
                        out.push(',');
                    }
                    first = false;
                    esc(k, out);
                    out.push(':');
                    v.write(out);
                }
                out.push('}');
            }
        }
    }
}

fn esc(s: &str, out: &mut String) {
    out.push('"');
    for c in s.chars() {
        match c {
            '"' => out.push_str("\\\""),
            '\\' => out.push_str("\\\\"),
            '\n' => out.push_str("\\n"),
            '\r' => out.push_str("\\r"),
            '\t' => out.push_str("\\t"),
            c if (c as u32) < 0x20 => out.push_str(&format!("\\u{:04x}", c as u32)),
            c => out.push(c),
        }
    }
    out.push('"');
}
