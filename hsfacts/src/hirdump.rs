// HIR + typeck dump: a re-sugared, resolved expression tree per function.
use crate::json::Val;
use rustc_ast::LitKind;
use rustc_hir as hir;
use rustc_hir::def::{CtorKind, DefKind, Res};
use rustc_hir::def_id::{DefId, LocalDefId};
use rustc_hir::{
    Block, Closure, ClosureKind, CoroutineDesugaring, CoroutineKind, Expr, ExprKind, LoopSource,
    MatchSource, Pat, PatKind, QPath, StmtKind,
};
use rustc_middle::ty::{self, Instance, Ty, TyCtxt, TypeVisitableExt, TypeckResults, TypingEnv};
use rustc_span::{ExpnKind, Span};

pub struct Cx<'tcx> {
    pub tcx: TyCtxt<'tcx>,
    owner: LocalDefId,
}

pub fn path_of(tcx: TyCtxt<'_>, did: DefId) -> String {
    tcx.def_path_str(did)
}

pub fn span_loc(tcx: TyCtxt<'_>, span: Span) -> String {
    let sp = if span.from_expansion() { span.source_callsite() } else { span };
    let sm = tcx.sess.source_map();
    let lo = sm.lookup_char_pos(sp.lo());
    let name = format!("{}", lo.file.name.prefer_local_unconditionally());
    format!("{}:{}:{}", name, lo.line, lo.col.0 + 1)
}

// line range (start-end) of the span itself (call-site if expanded)
pub fn span_lines(tcx: TyCtxt<'_>, span: Span) -> (usize, usize) {
    let sp = if span.from_expansion() { span.source_callsite() } else { span };
    let sm = tcx.sess.source_map();
    let lo = sm.lookup_char_pos(sp.lo());
    let hi = sm.lookup_char_pos(sp.hi());
    (lo.line, hi.line)
}

pub fn macro_chain(span: Span) -> Vec<String> {
    let mut v = Vec::new();
    if !span.from_expansion() {
        return v;
    }
    for ed in span.macro_backtrace() {
        match ed.kind {
            ExpnKind::Macro(_, name) => {
                let n = name.to_string();
                v.push(n.rsplit("::").next().unwrap_or(&n).to_string())
            }
            ExpnKind::Desugaring(k) => v.push(format!("desugar:{:?}", k)),
            ExpnKind::AstPass(_) => v.push("astpass".to_string()),
            ExpnKind::Root => {}
        }
    }
    v
}

fn strs(v: Vec<String>) -> Val {
    if v.is_empty() {
        Val::Null
    } else {
        Val::Arr(v.into_iter().map(Val::Str).collect())
    }
}

impl<'tcx> Cx<'tcx> {
    fn ty_s(&self, t: Ty<'tcx>) -> Val {
        Val::Str(format!("{}", t))
    }

    fn base(&self, k: &str, span: Span, ty: Option<Ty<'tcx>>) -> Vec<(&'static str, Val)> {
        let mut o: Vec<(&'static str, Val)> = Vec::with_capacity(8);
        o.push(("k", Val::s(k)));
        o.push(("sp", Val::Str(span_loc(self.tcx, span))));
        o.push(("m", strs(macro_chain(span))));
        if let Some(t) = ty {
            o.push(("ty", self.ty_s(t)));
        }
        o
    }

    fn resolve_inst(&self, did: DefId, args: ty::GenericArgsRef<'tcx>) -> Option<String> {
        let tcx = self.tcx;
        // Only try to resolve trait methods.
        if tcx.trait_of_assoc(did).is_none() {
            return None;
        }
        let env = TypingEnv::post_analysis(tcx, self.owner);
        let args = tcx.erase_and_anonymize_regions(args);
        if args.has_non_region_infer() {
            return None;
        }
        match Instance::try_resolve(tcx, env, did, args) {
            Ok(Some(inst)) => {
                let d = inst.def_id();
                if d != did {
                    Some(path_of(tcx, d))
                } else {
                    None
                }
            }
            _ => None,
        }
    }

    fn qpath_res(&self, tr: &TypeckResults<'tcx>, qp: &QPath<'tcx>, id: hir::HirId) -> Res {
        tr.qpath_res(qp, id)
    }

    fn ctor_path(&self, did: DefId) -> String {
        // Ctor def -> parent (variant or struct)
        let p = self.tcx.parent(did);
        path_of(self.tcx, p)
    }

    pub fn pat(&self, tr: &TypeckResults<'tcx>, p: &Pat<'tcx>) -> Val {
        let ty = tr.node_type_opt(p.hir_id);
        let mut o = self.base("p?", p.span, ty);
        let set = |o: &mut Vec<(&'static str, Val)>, k: &str| o[0] = ("k", Val::s(k));
        match p.kind {
            PatKind::Wild => set(&mut o, "pwild"),
            PatKind::Missing => set(&mut o, "pwild"),
            PatKind::Never => set(&mut o, "pnever"),
            PatKind::Binding(mode, hid, ident, sub) => {
                set(&mut o, "pbind");
                o.push(("name", Val::s(ident.name.as_str())));
                o.push(("id", Val::Num(hid.local_id.as_u32() as i128)));
                o.push(("byref", Val::Bool(matches!(mode.0, hir::ByRef::Yes(..)))));
                o.push(("mut", Val::Bool(mode.1.is_mut())));
                if let Some(s) = sub {
                    o.push(("sub", self.pat(tr, s)));
                }
            }
            PatKind::Struct(ref qp, fields, _) => {
                set(&mut o, "pstruct");
                let res = self.qpath_res(tr, qp, p.hir_id);
                o.push(("path", self.res_path(res, ty)));
                let fs = fields
                    .iter()
                    .map(|f| Val::obj(vec![("name", Val::s(f.ident.name.as_str())), ("pat", self.pat(tr, f.pat))]))
                    .collect();
                o.push(("fields", Val::Arr(fs)));
            }
            PatKind::TupleStruct(ref qp, pats, ddpos) => {
                set(&mut o, "ptstruct");
                let res = self.qpath_res(tr, qp, p.hir_id);
                o.push(("path", self.res_path(res, ty)));
                o.push(("pats", Val::Arr(pats.iter().map(|x| self.pat(tr, x)).collect())));
                if let Some(d) = ddpos.as_opt_usize() {
                    o.push(("dotdot", Val::Num(d as i128)));
                }
            }
            PatKind::Or(pats) => {
                set(&mut o, "por");
                o.push(("pats", Val::Arr(pats.iter().map(|x| self.pat(tr, x)).collect())));
            }
            PatKind::Tuple(pats, ddpos) => {
                set(&mut o, "ptuple");
                o.push(("pats", Val::Arr(pats.iter().map(|x| self.pat(tr, x)).collect())));
                if let Some(d) = ddpos.as_opt_usize() {
                    o.push(("dotdot", Val::Num(d as i128)));
                }
            }
            PatKind::Box(x) | PatKind::Deref(x) => {
                set(&mut o, "pderef");
                o.push(("pat", self.pat(tr, x)));
            }
            PatKind::Ref(x, _, _) => {
                set(&mut o, "pref");
                o.push(("pat", self.pat(tr, x)));
            }
            PatKind::Expr(pe) => {
                set(&mut o, "pexpr");
                match pe.kind {
                    hir::PatExprKind::Lit { lit, negated } => {
                        o.push(("lit", self.lit(&lit.node)));
                        if negated {
                            o.push(("neg", Val::Bool(true)));
                        }
                    }
                    hir::PatExprKind::Path(ref qp) => {
                        let res = self.qpath_res(tr, qp, pe.hir_id);
                        o.push(("path", self.res_path(res, ty)));
                    }
                }
            }
            PatKind::Guard(x, g) => {
                set(&mut o, "pguard");
                o.push(("pat", self.pat(tr, x)));
                o.push(("guard", self.expr(tr, g)));
            }
            PatKind::Range(..) => set(&mut o, "prange"),
            PatKind::Slice(a, m, b) => {
                set(&mut o, "pslice");
                o.push(("pats", Val::Arr(a.iter().chain(b.iter()).map(|x| self.pat(tr, x)).collect())));
                if let Some(m) = m {
                    o.push(("mid", self.pat(tr, m)));
                }
            }
            PatKind::Err(_) => set(&mut o, "perr"),
        }
        Val::Obj(o)
    }

    fn res_path(&self, res: Res, ty: Option<Ty<'tcx>>) -> Val {
        match res {
            Res::Def(DefKind::Ctor(..), did) => Val::Str(self.ctor_path(did)),
            Res::Def(_, did) => Val::Str(path_of(self.tcx, did)),
            Res::SelfTyAlias { .. } | Res::SelfTyParam { .. } | Res::SelfCtor(_) => match ty {
                Some(t) => match t.kind() {
                    ty::Adt(adt, _) => Val::Str(path_of(self.tcx, adt.did())),
                    _ => Val::Str(format!("{}", t)),
                },
                None => Val::s("Self"),
            },
            _ => Val::s("?"),
        }
    }

    fn lit(&self, l: &LitKind) -> Val {
        match l {
            LitKind::Str(s, _) => Val::obj(vec![("str", Val::s(s.as_str()))]),
            LitKind::ByteStr(b, _) | LitKind::CStr(b, _) => {
                Val::obj(vec![("bytes", Val::Str(String::from_utf8_lossy(b.as_byte_str()).to_string()))])
            }
            LitKind::Byte(b) => Val::obj(vec![("int", Val::Num(*b as i128))]),
            LitKind::Char(c) => Val::obj(vec![("char", Val::Str(c.to_string()))]),
            LitKind::Int(n, _) => Val::obj(vec![("int", Val::Num(n.get() as i128))]),
            LitKind::Float(s, _) => Val::obj(vec![("float", Val::s(s.as_str()))]),
            LitKind::Bool(b) => Val::obj(vec![("bool", Val::Bool(*b))]),
            LitKind::Err(_) => Val::Null,
        }
    }

    fn block(&self, tr: &TypeckResults<'tcx>, b: &Block<'tcx>, label: Option<String>, ty: Option<Ty<'tcx>>) -> Val {
        let mut o = self.base("block", b.span, ty);
        let mut stmts = Vec::new();
        for s in b.stmts {
            match s.kind {
                StmtKind::Let(l) => {
                    let mut lo = self.base("slet", s.span, None);
                    lo.push(("pat", self.pat(tr, l.pat)));
                    if let Some(i) = l.init {
                        lo.push(("init", self.expr(tr, i)));
                    }
                    if let Some(e) = l.els {
                        lo.push(("els", self.block(tr, e, None, None)));
                    }
                    stmts.push(Val::Obj(lo));
                }
                StmtKind::Expr(e) | StmtKind::Semi(e) => stmts.push(self.expr(tr, e)),
                StmtKind::Item(_) => {}
            }
        }
        o.push(("stmts", Val::Arr(stmts)));
        if let Some(e) = b.expr {
            o.push(("expr", self.expr(tr, e)));
        }
        if let Some(l) = label {
            o.push(("label", Val::Str(l)));
        }
        Val::Obj(o)
    }

    fn callee_is(&self, tr: &TypeckResults<'tcx>, f: &Expr<'tcx>, names: &[&str]) -> bool {
        if let ExprKind::Path(ref qp) = f.kind {
            if let Res::Def(_, did) = self.qpath_res(tr, qp, f.hir_id) {
                let n = self.tcx.item_name(did);
                return names.iter().any(|x| n.as_str() == *x);
            }
        }
        false
    }

    pub fn expr(&self, tr: &TypeckResults<'tcx>, e: &Expr<'tcx>) -> Val {
        let tcx = self.tcx;
        let ty = tr.expr_ty_opt(e);
        match e.kind {
            ExprKind::DropTemps(x) | ExprKind::Use(x, _) => return self.expr(tr, x),
            _ => {}
        }
        let mut o = self.base("?", e.span, ty);
        macro_rules! set {
            ($k:expr) => {
                o[0] = ("k", Val::s($k))
            };
        }
        match e.kind {
            ExprKind::ConstBlock(_) => set!("constblock"),
            ExprKind::Array(es) => {
                set!("array");
                o.push(("es", Val::Arr(es.iter().map(|x| self.expr(tr, x)).collect())));
            }
            ExprKind::Call(f, args) => {
                let argv = Val::Arr(args.iter().map(|x| self.expr(tr, x)).collect());
                let mut done = false;
                if let ExprKind::Path(ref qp) = f.kind {
                    match self.qpath_res(tr, qp, f.hir_id) {
                        Res::Def(DefKind::Fn | DefKind::AssocFn, did) => {
                            set!("call");
                            o.push(("fn", Val::Str(path_of(tcx, did))));
                            let ga = tr.node_args(f.hir_id);
                            if let Some(i) = self.resolve_inst(did, ga) {
                                o.push(("inst", Val::Str(i)));
                            }
                            if !ga.is_empty() {
                                o.push(("targs", Val::Str(format!("{:?}", ga))));
                            }
                            done = true;
                        }
                        Res::Def(DefKind::Ctor(_, _), did) => {
                            set!("ctor");
                            o.push(("path", Val::Str(self.ctor_path(did))));
                            done = true;
                        }
                        Res::SelfCtor(_) => {
                            set!("ctor");
                            o.push(("path", self.res_path(Res::SelfCtor(tcx.parent(self.owner.to_def_id())), ty)));
                            done = true;
                        }
                        _ => {}
                    }
                }
                if !done {
                    set!("callv");
                    o.push(("f", self.expr(tr, f)));
                }
                o.push(("args", argv));
            }
            ExprKind::MethodCall(seg, recv, args, _) => {
                set!("mcall");
                o.push(("name", Val::s(seg.ident.name.as_str())));
                if let Some(did) = tr.type_dependent_def_id(e.hir_id) {
                    o.push(("fn", Val::Str(path_of(tcx, did))));
                    let ga = tr.node_args(e.hir_id);
                    if let Some(i) = self.resolve_inst(did, ga) {
                        o.push(("inst", Val::Str(i)));
                    }
                }
                o.push(("recv", self.expr(tr, recv)));
                o.push(("args", Val::Arr(args.iter().map(|x| self.expr(tr, x)).collect())));
            }
            ExprKind::Tup(es) => {
                set!("tup");
                o.push(("es", Val::Arr(es.iter().map(|x| self.expr(tr, x)).collect())));
            }
            ExprKind::Binary(op, l, r) => {
                set!("bin");
                o.push(("op", Val::s(op.node.as_str())));
                o.push(("l", self.expr(tr, l)));
                o.push(("r", self.expr(tr, r)));
                if let Some(did) = tr.type_dependent_def_id(e.hir_id) {
                    o.push(("fn", Val::Str(path_of(tcx, did))));
                }
            }
            ExprKind::Unary(op, x) => {
                set!("un");
                o.push(("op", Val::s(op.as_str())));
                o.push(("e", self.expr(tr, x)));
            }
            ExprKind::Lit(l) => {
                set!("lit");
                o.push(("v", self.lit(&l.node)));
            }
            ExprKind::Cast(x, _) | ExprKind::Type(x, _) => {
                set!("cast");
                o.push(("e", self.expr(tr, x)));
            }
            ExprKind::Let(l) => {
                set!("let");
                o.push(("pat", self.pat(tr, l.pat)));
                o.push(("init", self.expr(tr, l.init)));
            }
            ExprKind::If(c, t, el) => {
                set!("if");
                o.push(("c", self.expr(tr, c)));
                o.push(("t", self.expr(tr, t)));
                if let Some(x) = el {
                    o.push(("e", self.expr(tr, x)));
                }
            }
            ExprKind::Loop(b, label, src, _) => {
                let label = label.map(|l| l.ident.name.to_string());
                match src {
                    LoopSource::While => {
                        // loop { if cond { body } else { break } }
                        let mut ok = false;
                        if b.stmts.is_empty() {
                            if let Some(inner) = b.expr {
                                let inner = match inner.kind {
                                    ExprKind::DropTemps(x) => x,
                                    _ => inner,
                                };
                                if let ExprKind::If(c, t, _) = inner.kind {
                                    set!("while");
                                    o.push(("c", self.expr(tr, c)));
                                    o.push(("body", self.expr(tr, t)));
                                    ok = true;
                                }
                            }
                        }
                        if !ok {
                            set!("loop");
                            o.push(("body", self.block(tr, b, None, None)));
                        }
                    }
                    _ => {
                        set!("loop");
                        o.push(("body", self.block(tr, b, None, None)));
                    }
                }
                if let Some(l) = label {
                    o.push(("label", Val::Str(l)));
                }
            }
            ExprKind::Match(scrut, arms, src) => {
                let mut done = false;
                match src {
                    MatchSource::TryDesugar(_) => {
                        if let ExprKind::Call(_, [inner]) = scrut.kind {
                            set!("try");
                            o.push(("e", self.expr(tr, inner)));
                            done = true;
                        }
                    }
                    MatchSource::AwaitDesugar => {
                        if let ExprKind::Call(_, [inner]) = scrut.kind {
                            set!("await");
                            o.push(("e", self.expr(tr, inner)));
                            done = true;
                        }
                    }
                    MatchSource::ForLoopDesugar => {
                        // match into_iter(iter) { mut iter => [label:] loop { match next(&mut iter) { None => break, Some(pat) => body } } }
                        if let ExprKind::Call(_, [iter]) = scrut.kind {
                            if let Some(arm) = arms.first() {
                                if let ExprKind::Loop(lb, label, _, _) = arm.body.kind {
                                    let inner = lb.expr.or_else(|| {
                                        lb.stmts.first().and_then(|s| match s.kind {
                                            StmtKind::Expr(x) | StmtKind::Semi(x) => Some(x),
                                            _ => None,
                                        })
                                    });
                                    if let Some(inner) = inner {
                                        if let ExprKind::Match(_, iarms, _) = inner.kind {
                                            if iarms.len() == 2 {
                                                let some_arm = &iarms[1];
                                                if let PatKind::TupleStruct(_, [p], _) = some_arm.pat.kind {
                                                    set!("for");
                                                    o.push(("pat", self.pat(tr, p)));
                                                    o.push(("iter", self.expr(tr, iter)));
                                                    o.push(("body", self.expr(tr, some_arm.body)));
                                                    if let Some(l) = label {
                                                        o.push(("label", Val::Str(l.ident.name.to_string())));
                                                    }
                                                    done = true;
                                                } else if let PatKind::Struct(_, [pf], _) = some_arm.pat.kind {
                                                    set!("for");
                                                    o.push(("pat", self.pat(tr, pf.pat)));
                                                    o.push(("iter", self.expr(tr, iter)));
                                                    o.push(("body", self.expr(tr, some_arm.body)));
                                                    if let Some(l) = label {
                                                        o.push(("label", Val::Str(l.ident.name.to_string())));
                                                    }
                                                    done = true;
                                                }
                                            }
                                        }
                                    }
                                }
                            }
                        }
                    }
                    _ => {}
                }
                if !done {
                    set!("match");
                    o.push(("src", Val::Str(format!("{:?}", src))));
                    o.push(("scrut", self.expr(tr, scrut)));
                    let av = arms
                        .iter()
                        .map(|a| {
                            let mut ao = vec![("pat", self.pat(tr, a.pat))];
                            if let Some(g) = a.guard {
                                ao.push(("guard", self.expr(tr, g)));
                            }
                            ao.push(("body", self.expr(tr, a.body)));
                            Val::Obj(ao)
                        })
                        .collect();
                    o.push(("arms", Val::Arr(av)));
                }
            }
            ExprKind::Closure(c) => {
                set!("closure");
                self.closure(c, &mut o);
            }
            ExprKind::Block(b, label) => {
                return self.block(tr, b, label.map(|l| l.ident.name.to_string()), ty);
            }
            ExprKind::Assign(l, r, _) => {
                set!("assign");
                o.push(("l", self.expr(tr, l)));
                o.push(("r", self.expr(tr, r)));
            }
            ExprKind::AssignOp(op, l, r) => {
                set!("assignop");
                o.push(("op", Val::s(op.node.as_str())));
                o.push(("l", self.expr(tr, l)));
                o.push(("r", self.expr(tr, r)));
            }
            ExprKind::Field(x, ident) => {
                set!("field");
                o.push(("name", Val::s(ident.name.as_str())));
                o.push(("e", self.expr(tr, x)));
                // owner type of the field (peeled)
                let bt = tr.expr_ty_adjusted_opt(x).map(|t| t.peel_refs());
                if let Some(bt) = bt {
                    match bt.kind() {
                        ty::Adt(adt, _) => o.push(("of", Val::Str(path_of(tcx, adt.did())))),
                        _ => o.push(("of", Val::Str(format!("{}", bt)))),
                    }
                }
            }
            ExprKind::Index(b, i, bsp) => {
                set!("index");
                o.push(("bsp", Val::Str(span_loc(tcx, bsp))));
                o.push(("e", self.expr(tr, b)));
                o.push(("i", self.expr(tr, i)));
                if let Some(did) = tr.type_dependent_def_id(e.hir_id) {
                    o.push(("fn", Val::Str(path_of(tcx, did))));
                }
                if let Some(bt) = tr.expr_ty_adjusted_opt(b) {
                    o.push(("bty", self.ty_s(bt)));
                }
            }
            ExprKind::Path(ref qp) => match self.qpath_res(tr, qp, e.hir_id) {
                Res::Local(hid) => {
                    set!("var");
                    o.push(("name", Val::s(tcx.hir_name(hid).as_str())));
                    o.push(("id", Val::Num(hid.local_id.as_u32() as i128)));
                }
                Res::Def(DefKind::Ctor(_, CtorKind::Const), did) => {
                    set!("ctor");
                    o.push(("path", Val::Str(self.ctor_path(did))));
                    o.push(("args", Val::Arr(vec![])));
                }
                Res::Def(DefKind::Ctor(_, CtorKind::Fn), did) => {
                    set!("ctorref");
                    o.push(("path", Val::Str(self.ctor_path(did))));
                }
                Res::Def(DefKind::Fn | DefKind::AssocFn, did) => {
                    set!("fnref");
                    o.push(("fn", Val::Str(path_of(tcx, did))));
                    let ga = tr.node_args(e.hir_id);
                    if let Some(i) = self.resolve_inst(did, ga) {
                        o.push(("inst", Val::Str(i)));
                    }
                }
                Res::Def(_, did) => {
                    set!("const");
                    o.push(("path", Val::Str(path_of(tcx, did))));
                }
                r => {
                    set!("path");
                    o.push(("res", Val::Str(format!("{:?}", r))));
                }
            },
            ExprKind::AddrOf(_, m, x) => {
                set!("ref");
                o.push(("mut", Val::Bool(m.is_mut())));
                o.push(("e", self.expr(tr, x)));
            }
            ExprKind::Break(dest, x) => {
                set!("break");
                if let Some(l) = dest.label {
                    o.push(("label", Val::Str(l.ident.name.to_string())));
                }
                if let Some(x) = x {
                    o.push(("e", self.expr(tr, x)));
                }
            }
            ExprKind::Continue(dest) => {
                set!("continue");
                if let Some(l) = dest.label {
                    o.push(("label", Val::Str(l.ident.name.to_string())));
                }
            }
            ExprKind::Ret(x) => {
                set!("ret");
                if let Some(x) = x {
                    o.push(("e", self.expr(tr, x)));
                }
            }
            ExprKind::Become(x) => {
                set!("become");
                o.push(("e", self.expr(tr, x)));
            }
            ExprKind::Struct(qp, fields, tail) => {
                set!("struct");
                let res = self.qpath_res(tr, qp, e.hir_id);
                o.push(("path", self.res_path(res, ty)));
                let fs = fields
                    .iter()
                    .map(|f| {
                        Val::obj(vec![
                            ("name", Val::s(f.ident.name.as_str())),
                            ("e", self.expr(tr, f.expr)),
                            ("short", if f.is_shorthand { Val::Bool(true) } else { Val::Null }),
                        ])
                    })
                    .collect();
                o.push(("fields", Val::Arr(fs)));
                if let hir::StructTailExpr::Base(b) = tail {
                    o.push(("base", self.expr(tr, b)));
                }
            }
            ExprKind::Repeat(x, _) => {
                set!("repeat");
                o.push(("e", self.expr(tr, x)));
            }
            ExprKind::Yield(x, _) => {
                set!("yield");
                o.push(("e", self.expr(tr, x)));
            }
            ExprKind::InlineAsm(_) => set!("asm"),
            ExprKind::OffsetOf(..) => set!("offsetof"),
            ExprKind::UnsafeBinderCast(_, x, _) => {
                set!("cast");
                o.push(("e", self.expr(tr, x)));
            }
            ExprKind::Err(_) => set!("err"),
            ExprKind::DropTemps(_) | ExprKind::Use(..) => unreachable!(),
        }
        Val::Obj(o)
    }

    fn closure(&self, c: &Closure<'tcx>, o: &mut Vec<(&'static str, Val)>) {
        let tcx = self.tcx;
        let ck = match c.kind {
            ClosureKind::Closure => "closure",
            ClosureKind::Coroutine(CoroutineKind::Desugared(CoroutineDesugaring::Async, _)) => "async",
            ClosureKind::Coroutine(_) => "coroutine",
            ClosureKind::CoroutineClosure(_) => "asyncclosure",
        };
        o.push(("ck", Val::s(ck)));
        o.push(("def", Val::Str(path_of(tcx, c.def_id.to_def_id()))));
        o.push(("move", Val::Bool(matches!(c.capture_clause, hir::CaptureBy::Value { .. }))));
        let body = tcx.hir_body(c.body);
        let tr = tcx.typeck_body(c.body);
        o.push(("params", Val::Arr(body.params.iter().map(|p| self.pat(tr, p.pat)).collect())));
        o.push(("body", self.expr(tr, body.value)));
    }
}

fn attr_strings(tcx: TyCtxt<'_>, hid: hir::HirId) -> Vec<String> {
    let mut v = Vec::new();
    let sm = tcx.sess.source_map();
    for a in tcx.hir_attrs(hid) {
        if let hir::Attribute::Unparsed(item) = a {
            if let Ok(s) = sm.span_to_snippet(item.span) {
                v.push(s);
            } else {
                v.push(format!("{:?}", item.path));
            }
        }
    }
    v
}

pub fn dump<'tcx>(tcx: TyCtxt<'tcx>) -> (Val, Val) {
    let mut structs = Vec::new();
    let mut enums = Vec::new();
    let mut impls = Vec::new();
    let mut aliases = Vec::new();
    let mut fns = Vec::new();

    for id in tcx.hir_free_items() {
        let item = tcx.hir_item(id);
        let did = item.owner_id.def_id;
        let path = path_of(tcx, did.to_def_id());
        match item.kind {
            hir::ItemKind::Struct(_, _, ref vd) => {
                let adt = tcx.adt_def(did);
                let mut fields = Vec::new();
                for (hf, f) in vd.fields().iter().zip(adt.non_enum_variant().fields.iter()) {
                    let fty = tcx.type_of(f.did).instantiate_identity().skip_norm_wip();
                    fields.push(Val::obj(vec![
                        ("name", Val::s(f.name.as_str())),
                        ("ty", Val::Str(format!("{}", fty))),
                        ("attrs", strs(attr_strings(tcx, hf.hir_id))),
                    ]));
                }
                structs.push(Val::obj(vec![
                    ("path", Val::Str(path)),
                    ("sp", Val::Str(span_loc(tcx, item.span))),
                    ("fields", Val::Arr(fields)),
                    ("attrs", strs(attr_strings(tcx, item.hir_id()))),
                ]));
            }
            hir::ItemKind::Enum(_, _, ref ed) => {
                let adt = tcx.adt_def(did);
                let mut vars = Vec::new();
                for (hv, v) in ed.variants.iter().zip(adt.variants().iter()) {
                    let fs: Vec<Val> = v
                        .fields
                        .iter()
                        .map(|f| {
                            Val::obj(vec![
                                ("name", Val::s(f.name.as_str())),
                                ("ty", Val::Str(format!("{}", tcx.type_of(f.did).instantiate_identity().skip_norm_wip()))),
                            ])
                        })
                        .collect();
                    vars.push(Val::obj(vec![
                        ("name", Val::s(v.name.as_str())),
                        ("fields", Val::Arr(fs)),
                        ("attrs", strs(attr_strings(tcx, hv.hir_id))),
                    ]));
                }
                enums.push(Val::obj(vec![
                    ("path", Val::Str(path)),
                    ("sp", Val::Str(span_loc(tcx, item.span))),
                    ("variants", Val::Arr(vars)),
                    ("attrs", strs(attr_strings(tcx, item.hir_id()))),
                ]));
            }
            hir::ItemKind::TyAlias(..) => {
                let t = tcx.type_of(did).instantiate_identity().skip_norm_wip();
                aliases.push(Val::obj(vec![("path", Val::Str(path)), ("ty", Val::Str(format!("{}", t)))]));
            }
            hir::ItemKind::Impl(ref im) => {
                let self_ty = tcx.type_of(did).instantiate_identity().skip_norm_wip();
                let self_path = match self_ty.kind() {
                    ty::Adt(adt, _) => path_of(tcx, adt.did()),
                    _ => format!("{}", self_ty),
                };
                let trait_path = tcx.impl_opt_trait_ref(did).map(|t| path_of(tcx, t.skip_binder().def_id));
                let derived = tcx.is_automatically_derived(did.to_def_id());
                let items: Vec<Val> = im
                    .items
                    .iter()
                    .map(|r| Val::Str(path_of(tcx, r.owner_id.def_id.to_def_id())))
                    .collect();
                impls.push(Val::obj(vec![
                    ("self", Val::Str(self_path)),
                    ("self_ty", Val::Str(format!("{}", self_ty))),
                    ("trait", Val::opt(trait_path.map(Val::Str))),
                    ("derived", Val::Bool(derived)),
                    ("m", strs(macro_chain(item.span))),
                    ("sp", Val::Str(span_loc(tcx, item.span))),
                    ("items", Val::Arr(items)),
                ]));
            }
            _ => {}
        }
    }

    for def in tcx.hir_body_owners() {
        let dk = tcx.def_kind(def);
        let kind = match dk {
            DefKind::Fn => "fn",
            DefKind::AssocFn => "method",
            DefKind::Const { .. } | DefKind::AssocConst { .. } => "const",
            DefKind::Static { .. } => "static",
            _ => continue, // closures are emitted inline; anon consts skipped
        };
        let body = match tcx.hir_maybe_body_owned_by(def) {
            Some(b) => b,
            None => continue,
        };
        let tr = tcx.typeck(def);
        let cx = Cx { tcx, owner: def };
        let path = path_of(tcx, def.to_def_id());
        let span = tcx.def_span(def);
        let mut o: Vec<(&'static str, Val)> = vec![
            ("path", Val::Str(path)),
            ("kind", Val::s(kind)),
            ("name", Val::s(tcx.item_name(def.to_def_id()).as_str())),
            ("sp", Val::Str(span_loc(tcx, span))),
            ("m", strs(macro_chain(span))),
        ];
        let hid = tcx.local_def_id_to_hir_id(def);
        let (l0, l1) = span_lines(tcx, tcx.hir_span_with_body(hid));
        o.push(("lines", Val::Arr(vec![Val::Num(l0 as i128), Val::Num(l1 as i128)])));
        o.push(("attrs", strs(attr_strings(tcx, hid))));
        if matches!(dk, DefKind::Fn | DefKind::AssocFn) {
            let sig = tcx.fn_sig(def).instantiate_identity().skip_norm_wip().skip_binder();
            o.push(("ret", Val::Str(format!("{}", sig.output()))));
            o.push(("is_async", Val::Bool(tcx.asyncness(def).is_async())));
            o.push(("vis", Val::Str(format!("{:?}", tcx.visibility(def)))));
        }
        if dk == DefKind::AssocFn {
            let parent = tcx.parent(def.to_def_id());
            if matches!(tcx.def_kind(parent), DefKind::Impl { .. }) {
                let self_ty = tcx.type_of(parent).instantiate_identity().skip_norm_wip();
                let self_path = match self_ty.kind() {
                    ty::Adt(adt, _) => path_of(tcx, adt.did()),
                    _ => format!("{}", self_ty),
                };
                o.push(("self", Val::Str(self_path)));
                if let Some(t) = tcx.impl_opt_trait_ref(parent) {
                    o.push(("trait", Val::Str(path_of(tcx, t.skip_binder().def_id))));
                }
                if tcx.is_automatically_derived(parent) {
                    o.push(("derived", Val::Bool(true)));
                }
            }
        }
        o.push(("params", Val::Arr(body.params.iter().map(|p| cx.pat(tr, p.pat)).collect())));
        o.push(("body", cx.expr(tr, body.value)));
        fns.push(Val::Obj(o));
    }

    let items = Val::obj(vec![
        ("structs", Val::Arr(structs)),
        ("enums", Val::Arr(enums)),
        ("impls", Val::Arr(impls)),
        ("aliases", Val::Arr(aliases)),
    ]);
    (items, Val::Arr(fns))
}
