// MIR dump: pre-borrowck `mir_built` control-flow facts per body (fns, closures,
// coroutines): terminators with resolved callees, panic-capable Asserts,
// successor edges, immediate dominators.
use crate::hirdump::{macro_chain, path_of, span_loc};
use crate::json::Val;
use rustc_hir::def::DefKind;
use rustc_middle::mir::{AssertKind, Operand, TerminatorKind};
use rustc_middle::ty::{self, Instance, TyCtxt, TypeVisitableExt, TypingEnv};

pub fn dump<'tcx>(tcx: TyCtxt<'tcx>) -> Val {
    let mut out = Vec::new();
    // Phase 1: clone every mir_built body before anything can steal it (revealing an
    // async fn's opaque future type runs borrowck, which steals mir_built).
    let mut bodies = Vec::new();
    for def in tcx.hir_body_owners() {
        let dk = tcx.def_kind(def);
        match dk {
            DefKind::Fn | DefKind::AssocFn | DefKind::Closure => {}
            _ => continue,
        }
        let b = tcx.mir_built(def).borrow().clone();
        bodies.push((def, b));
    }
    for (def, body) in bodies.iter() {
        let def = *def;
        let root = tcx.typeck_root_def_id(def.to_def_id());
        let env = TypingEnv::post_analysis(tcx, def);
        let doms = body.basic_blocks.dominators();
        let mut blocks = Vec::new();
        for (bb, data) in body.basic_blocks.iter_enumerated() {
            let term = data.terminator();
            let sp = term.source_info.span;
            let mut o: Vec<(&'static str, Val)> = Vec::new();
            let succ: Vec<Val> = term.successors().map(|s| Val::Num(s.as_u32() as i128)).collect();
            let kind: &str = match &term.kind {
                TerminatorKind::Goto { .. } => "goto",
                TerminatorKind::SwitchInt { .. } => "switch",
                TerminatorKind::UnwindResume => "resume",
                TerminatorKind::UnwindTerminate(_) => "terminate",
                TerminatorKind::Return => "return",
                TerminatorKind::Unreachable => "unreachable",
                TerminatorKind::Drop { .. } => "drop",
                TerminatorKind::Call { func, args, .. } | TerminatorKind::TailCall { func, args, .. } => {
                    match func {
                        Operand::Constant(c) => {
                            if let ty::FnDef(did, ga) = c.const_.ty().kind() {
                                o.push(("fn", Val::Str(path_of(tcx, *did))));
                                let ga2 = tcx.erase_and_anonymize_regions(*ga);
                                if !ga2.is_empty() {
                                    o.push(("targs", Val::Str(format!("{:?}", ga2))));
                                }
                                if tcx.trait_of_assoc(*did).is_some() && !ga2.has_non_region_infer() {
                                    if let Ok(Some(inst)) = Instance::try_resolve(tcx, env, *did, ga2) {
                                        if inst.def_id() != *did {
                                            o.push(("inst", Val::Str(path_of(tcx, inst.def_id()))));
                                        }
                                    }
                                }
                            }
                        }
                        _ => {}
                    }
                    o.push(("argc", Val::Num(args.len() as i128)));
                    // constant string args (e.g. expect messages)
                    "call"
                }
                TerminatorKind::Assert { msg, .. } => {
                    let ak = match &**msg {
                        AssertKind::BoundsCheck { .. } => "BoundsCheck".to_string(),
                        AssertKind::Overflow(op, _, _) => format!("Overflow({:?})", op),
                        AssertKind::OverflowNeg(_) => "OverflowNeg".to_string(),
                        AssertKind::DivisionByZero(_) => "DivisionByZero".to_string(),
                        AssertKind::RemainderByZero(_) => "RemainderByZero".to_string(),
                        AssertKind::ResumedAfterReturn(_) => "ResumedAfterReturn".to_string(),
                        AssertKind::ResumedAfterPanic(_) => "ResumedAfterPanic".to_string(),
                        AssertKind::ResumedAfterDrop(_) => "ResumedAfterDrop".to_string(),
                        AssertKind::MisalignedPointerDereference { .. } => "Misaligned".to_string(),
                        AssertKind::NullPointerDereference => "NullDeref".to_string(),
                        AssertKind::InvalidEnumConstruction(_) => "InvalidEnum".to_string(),
                    };
                    o.push(("ak", Val::Str(ak)));
                    "assert"
                }
                TerminatorKind::Yield { .. } => "yield",
                TerminatorKind::CoroutineDrop => "codrop",
                TerminatorKind::FalseEdge { .. } => "falseedge",
                TerminatorKind::FalseUnwind { .. } => "falseunwind",
                TerminatorKind::InlineAsm { .. } => "asm",
            };
            let mut full: Vec<(&'static str, Val)> = vec![
                ("i", Val::Num(bb.as_u32() as i128)),
                ("t", Val::s(kind)),
                ("sp", Val::Str(span_loc(tcx, sp))),
            ];
            let mc = macro_chain(sp);
            if !mc.is_empty() {
                full.push(("m", Val::Arr(mc.into_iter().map(Val::Str).collect())));
            }
            if data.is_cleanup {
                full.push(("cleanup", Val::Bool(true)));
            }
            full.extend(o);
            full.push(("succ", Val::Arr(succ)));
            let idom = doms.immediate_dominator(bb).map(|d| d.as_u32() as i128).unwrap_or(-1);
            full.push(("idom", Val::Num(idom)));
            blocks.push(Val::Obj(full));
        }
        out.push(Val::obj(vec![
            ("def", Val::Str(path_of(tcx, def.to_def_id()))),
            ("root", Val::Str(path_of(tcx, root))),
            ("sp", Val::Str(span_loc(tcx, tcx.def_span(def)))),
            ("blocks", Val::Arr(blocks)),
        ]));
    }
    Val::Arr(out)
}
