#!/usr/bin/env python3
"""Create a mutant patch: tools/mkmut.py <ID> <name> <file> <old> <new> [<file2> <old2> <new2> ...]
Exact-string replacement (must match exactly once) against /repo HEAD; writes mutants/<ID>/<name>.patch."""
import os
import subprocess
import sys
import tempfile
import shutil

VERIF = os.path.dirname(os.path.dirname(os.path.abspath(__file__)))


def main():
    pid, name = sys.argv[1], sys.argv[2]
    trip = sys.argv[3:]
    assert len(trip) % 3 == 0 and trip
    tmp = tempfile.mkdtemp(prefix="hsm-")
    wt = os.path.join(tmp, "r")
    try:
        subprocess.run(["git", "-C", "/repo", "worktree", "add", "-q", "--detach", wt, "HEAD"], check=True)
        for i in range(0, len(trip), 3):
            f, old, new = trip[i:i + 3]
            p = os.path.join(wt, f)
            s = open(p).read()
            if s.count(old) != 1:
                print("ERROR: %r occurs %d times in %s" % (old, s.count(old), f))
                return 1
            open(p, "w").write(s.replace(old, new))
        d = subprocess.run(["git", "-C", wt, "diff"], capture_output=True, text=True).stdout
        os.makedirs(os.path.join(VERIF, "mutants", pid), exist_ok=True)
        out = os.path.join(VERIF, "mutants", pid, name + ".patch")
        open(out, "w").write(d)
        print("wrote", out, len(d.splitlines()), "lines")
    finally:
        subprocess.run(["git", "-C", "/repo", "worktree", "remove", "--force", wt], capture_output=True)
        shutil.rmtree(tmp, ignore_errors=True)
    return 0


if __name__ == "__main__":
    sys.exit(main())
