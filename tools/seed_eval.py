#!/usr/bin/env python3
"""Run every built check against seeded changes.  usage: tools/seed_eval.py <seed-dir>... (dirs containing patch.diff)"""
import glob
import json
import os
import sys

sys.path.insert(0, os.path.dirname(os.path.abspath(__file__)))
from on_tree import run_checks, VERIF  # noqa: E402


def built_ids():
    m = json.load(open(os.path.join(VERIF, "MANIFEST.json")))
    ids = [c["property_id"] for c in m["checks"]]
    extra = [os.path.basename(p)[:-3].upper() for p in glob.glob(os.path.join(VERIF, "hsrules", "props", "c*.py"))]
    return sorted(set(ids) | set(extra))


def main():
    ids = built_ids()
    for d in sys.argv[1:]:
        patch = os.path.join(d, "patch.diff")
        meta = {}
        try:
            meta = json.load(open(os.path.join(d, "meta.json")))
        except Exception:
            pass
        res = run_checks("HEAD", [patch], ids)
        if "_apply_error" in res:
            print("%s: APPLY-ERROR %s" % (d, res["_apply_error"]))
            continue
        fired = {}
        infra = []
        for pid, r in res.items():
            if r["exit"] == 1:
                rules = []
                for v in r["violations"]:
                    rid = v.split("[", 1)[1].split("|", 1)[0] if "[" in v else "?"
                    if rid not in rules:
                        rules.append(rid)
                fired[pid] = rules
            elif r["exit"] != 0:
                infra.append("%s(exit %d: %s)" % (pid, r["exit"], " ".join(r["tail"])[-200:]))
        print("%s [%s] %s" % (d, meta.get("property", "?"), (meta.get("summary") or "")[:110]))
        print("    fired: %s" % (json.dumps(fired) if fired else "NONE"))
        if infra:
            print("    INFRA: %s" % infra)
        sys.stdout.flush()


if __name__ == "__main__":
    main()
