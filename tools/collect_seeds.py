#!/usr/bin/env python3
"""Copy confirmed seeded changes from agent worktrees into /verif/seeded/<ID>-<k>/ and record which checks fire.
usage: tools/collect_seeds.py /tmp/wt/C01 /tmp/wt/C02 ...   |   tools/collect_seeds.py --reeval   (re-run checks on seeded/*)"""
import glob
import json
import os
import shutil
import sys
from concurrent.futures import ThreadPoolExecutor

sys.path.insert(0, os.path.dirname(os.path.abspath(__file__)))
from on_tree import run_checks, VERIF  # noqa: E402
from seed_eval import built_ids  # noqa: E402


def evaluate(d):
    ids = built_ids()
    res = run_checks("HEAD", [os.path.join(d, "patch.diff")], ids)
    if "_apply_error" in res:
        return {"apply_error": res["_apply_error"]}
    fired = {}
    for pid, r in res.items():
        if r["exit"] == 1:
            rules = []
            for v in r["violations"]:
                rid = v.split("[", 1)[1].split("|", 1)[0] if "[" in v else "?"
                if rid not in rules:
                    rules.append(rid)
            fired[pid] = rules
        elif r["exit"] != 0:
            fired[pid] = ["INFRA exit %d" % r["exit"]]
    return fired


def main():
    dirs = []
    if sys.argv[1:] == ["--reeval"]:
        dirs = sorted(glob.glob(os.path.join(VERIF, "seeded", "C*")))
    else:
        for wt in sys.argv[1:]:
            for sd in sorted(glob.glob(os.path.join(wt, "SEED", "*"))):
                k = os.path.basename(sd)
                cj = os.path.join(sd, "confirm.json")
                if not os.path.exists(cj):
                    print("skip (unconfirmed):", sd)
                    continue
                conf = json.load(open(cj))
                wpd = conf.get("with_patch_and_demo", "0 0").split()
                do = conf.get("demo_only", "0 1").split()
                demo_fails = int(wpd[1]) >= 1 or int(wpd[0]) < int(do[0])      # a failed test, or a test binary that aborted
                if conf.get("error") or conf.get("with_patch") != "41 0" or not demo_fails or do[1] != "0":
                    print("skip (confirmation failed):", sd, conf)
                    continue
                meta = json.load(open(os.path.join(sd, "meta.json")))
                _b = os.path.basename(wt.rstrip("/"))
                rnd = os.environ["SEED_ROUND"] + "-" if os.environ.get("SEED_ROUND") else "r2-" if _b.startswith("R2") else "r3-" if _b.startswith("R3") else "r4-" if _b.startswith("R4") else ""
                dst = os.path.join(VERIF, "seeded", "%s-%s%s" % (meta.get("property", os.path.basename(wt)), rnd, k))
                os.makedirs(dst, exist_ok=True)
                for f in ("patch.diff", "demo.diff"):
                    shutil.copy(os.path.join(sd, f), os.path.join(dst, f))
                meta["confirmed_by_main"] = {
                    "procedure": "tools/confirm_seed.sh (each cargo test in its own network namespace): suite with patch.diff; suite with patch.diff+demo.diff; suite with demo.diff only",
                    "with_patch (passed failed)": conf["with_patch"], "with_patch_and_demo": conf["with_patch_and_demo"], "demo_only": conf["demo_only"],
                    "failing_test_with_patch": conf.get("failing_with_patch", "").replace("result:", "").strip(), "cargo_features": conf.get("features", ""),
                }
                json.dump(meta, open(os.path.join(dst, "meta.json"), "w"), indent=1)
                dirs.append(dst)
    with ThreadPoolExecutor(max_workers=4) as ex:
        for d, fired in zip(dirs, ex.map(evaluate, dirs)):
            mp = os.path.join(d, "meta.json")
            meta = json.load(open(mp))
            meta["detected_by"] = fired
            json.dump(meta, open(mp, "w"), indent=1)
            own = meta.get("property")
            print("%-8s own-check=%s  fired=%s" % (os.path.basename(d), "YES" if own in fired else "no ", json.dumps(fired)))


if __name__ == "__main__":
    main()
