#!/usr/bin/env python3
"""Self-validation: apply each mutants/<ID>/*.patch to a scratch copy of /repo and require the check to fire.
usage: tools/mutants.py [ID...]   (default: all).  Exit 0 iff every applicable mutant is detected."""
import glob
import os
import sys
from concurrent.futures import ThreadPoolExecutor

sys.path.insert(0, os.path.dirname(os.path.abspath(__file__)))
from on_tree import run_checks, VERIF  # noqa: E402


def one(args):
    pid, patch = args
    r = run_checks("HEAD", [patch], [pid])
    name = os.path.basename(patch)[:-6]
    if "_apply_error" in r:
        return (pid, name, "SKIP(no longer applies)", [])
    x = r[pid]
    if x["exit"] == 1:
        return (pid, name, "DETECTED", x["violations"])
    if x["exit"] == 0:
        return (pid, name, "MISSED", [])
    return (pid, name, "INFRA(exit %d) %s" % (x["exit"], " ".join(x["tail"])[-300:]), [])


def main():
    ids = [a.upper() for a in sys.argv[1:]] or sorted(os.path.basename(d) for d in glob.glob(os.path.join(VERIF, "mutants", "C*")))
    jobs = []
    for pid in ids:
        for p in sorted(glob.glob(os.path.join(VERIF, "mutants", pid, "*.patch"))):
            jobs.append((pid, p))
    bad = 0
    with ThreadPoolExecutor(max_workers=4) as ex:
        for (pid, name, verdict, viol) in ex.map(one, jobs):
            print("%-4s %-34s %s" % (pid, name, verdict))
            for v in viol[:3]:
                print("        " + v[:220])
            if verdict.startswith(("MISSED", "INFRA")):
                bad += 1
    print("mutants: %d run, %d not detected" % (len(jobs), bad))
    return 1 if bad else 0


if __name__ == "__main__":
    sys.exit(main())
