#!/usr/bin/env python3
"""Quick regression over seeded/: run only the property's OWN check on each seeded change; every one must be reported.
usage: tools/seed_own.py [ID-prefix]"""
import glob
import json
import os
import sys
from concurrent.futures import ThreadPoolExecutor

sys.path.insert(0, os.path.dirname(os.path.abspath(__file__)))
from on_tree import run_checks, VERIF  # noqa: E402


def one(d):
    own = json.load(open(os.path.join(d, "meta.json"))).get("property")
    r = run_checks("HEAD", [os.path.join(d, "patch.diff")], [own])
    if "_apply_error" in r:
        return os.path.basename(d), "SKIP"
    e = r[own]["exit"]
    return os.path.basename(d), "detected" if e == 1 else "MISSED" if e == 0 else "infra(%d)" % e


def main():
    sub = sys.argv[1] if len(sys.argv) > 1 else "C"
    ds = sorted(glob.glob(os.path.join(VERIF, "seeded", sub + "*")))
    bad = 0
    with ThreadPoolExecutor(max_workers=6) as ex:
        for name, v in ex.map(one, ds):
            if v != "detected":
                print("%-12s %s" % (name, v))
                bad += 1
    print("seeds: %d run, %d not detected by the own check" % (len(ds), bad))
    return 1 if bad else 0


if __name__ == "__main__":
    sys.exit(main())
