#!/usr/bin/env python3
"""Print the brief handed to an independent seeding sub-agent.
usage: tools/seed_prompt.py <PROPERTY-ID> <worktree> [--n 3]
The brief contains only the property's text (from properties.jsonl), the worktree path, the delivery format and
one-line summaries of changes already collected for the property (so the agent writes different ones).  Nothing
about the checks in /verif is included."""
import glob
import json
import os
import sys

VERIF = os.path.dirname(os.path.dirname(os.path.abspath(__file__)))


def main():
    pid, wt = sys.argv[1], sys.argv[2]
    n = 3
    if "--n" in sys.argv:
        n = int(sys.argv[sys.argv.index("--n") + 1])
    prop = None
    for line in open(os.path.join(VERIF, "properties.jsonl")):
        p = json.loads(line)
        if p["id"] == pid:
            prop = p
    earlier = []
    for d in sorted(glob.glob(os.path.join(VERIF, "seeded", pid + "-*"))):
        try:
            m = json.load(open(os.path.join(d, "meta.json")))
            earlier.append("- " + (m.get("summary") or "")[:260])
        except Exception:
            pass
    print(f"""You are helping to test a verification effort for the Rust repository asonnino/hotstuff (2-chain HotStuff BFT consensus:
crates store, crypto, network, mempool, consensus, node). You have your own scratch git worktree of it at {wt}
(a detached checkout with a pre-built `target/` directory; work ONLY inside that directory; never touch /repo or /verif; do not read /verif).

Here is one semantic property the code base is supposed to satisfy (JSON record):

{json.dumps(prop, indent=1)}

TASK. Produce {n} *different* changes to the repository's non-test source, each of which BREAKS this property while
 (a) still compiling (`cargo build --workspace --offline` and `cargo build --workspace --features node/benchmark --offline`),
 (b) keeping the whole existing test suite green: run it exactly as
       unshare -n bash -c 'ip link set lo up; exec cargo test --workspace --no-fail-fast --offline'
     (the suite uses fixed localhost ports, so ALWAYS run cargo test inside `unshare -n` like this; expect 41 passed, 0 failed),
 (c) looking like something a maintainer could plausibly write (an optimisation, a refactor, a hardening, a clean-up) - not sabotage,
 (d) needing something SPECIFIC to manifest: a particular interleaving, a crash/fault at a particular point, a multi-step sequence
     of operations, an unusual input, an extreme configuration value, or two cooperating edits in different places that each look
     fine alone. A change that ordinary use exposes at once is not wanted.
For each change also write a DEMONSTRATION: one new test (added to an existing tests file / test module of the repository, or a new
one wired in the same way) that FAILS with your change applied and PASSES on the unchanged code. The demonstration must be
deterministic and finish in a few seconds. Use distinct localhost ports from those already used in the test suite.

Changes already collected for this property in earlier rounds (yours must be of a different KIND - a different mechanism, a different
place in the code, not a variation of these):
{chr(10).join(earlier) if earlier else '- (none)'}

Be inventive: supporting code far from the obvious function (network layer, store, configuration, wiring in node/consensus/mempool
spawn functions, message (de)serialisation, Hash/Eq/Ord impls, error types and error paths, channel capacities, task structure), changes
of *when* something happens (across an `.await`, a `select!`, a spawned task), library calls with a subtly different contract, integer
width/overflow, default values, feature `benchmark`, two cooperating edits.

DELIVERY FORMAT (strict). For k = 1..{n} create the directory {wt}/SEED/k/ containing:
  patch.diff  - `git diff` of the source change ONLY (no tests), relative to the worktree's HEAD, applicable with `git apply` at the root;
  demo.diff   - `git diff` of the demonstration test ONLY, applicable with `git apply` on top of HEAD both with and without patch.diff;
  meta.json   - {{"property": "{pid}", "summary": "<2-4 sentences: what was changed and where>", "needs_to_manifest": "<what specific
                 situation exposes it and why ordinary use/tests do not>", "files": [..], "demo_test": "<exact command that runs the
                 demonstration>", "ran": ["<command>: <result>", ...]}}
Before you finish, for every k verify from a clean tree (`git checkout -- . && git clean -fdq -e SEED -e target`):
  1. apply patch.diff only -> both builds succeed and the full suite is 41 passed / 0 failed;
  2. apply patch.diff + demo.diff -> the demonstration test fails;
  3. apply demo.diff only -> everything passes (42 passed / 0 failed).
Leave the worktree clean (git checkout -- .) at the end; keep SEED/ and target/. Do not commit anything.
In your final message list, per k, a one-line summary and the three verification results. If you could only produce fewer than {n}
confirmed changes, deliver those and say so.
""")


if __name__ == "__main__":
    main()
