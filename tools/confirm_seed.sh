#!/bin/bash
# (each cargo test runs in its own network namespace: the suite uses fixed localhost ports, so parallel runs would collide)
# usage: confirm_seed.sh <worktree> <k>   -> writes <worktree>/SEED/<k>/confirm.json
# Confirms: (1) with patch.diff the existing suite still passes (41, 0 failed); (2) with patch+demo some test fails;
# (3) with demo only (patch reverted) everything passes.
wt=$1; k=$2; d=$wt/SEED/$k
cd $wt || exit 2
[ -f Cargo.lock ] || cp /repo/Cargo.lock Cargo.lock
cmp -s Cargo.lock /repo/Cargo.lock || cp /repo/Cargo.lock Cargo.lock
git checkout -q -- . ; git clean -fdq -e SEED -e target -e Cargo.lock
run() { timeout 1500 unshare -n bash -c 'ip link set lo up; exec cargo test --workspace --no-fail-fast --offline' 2>&1 | tee $d/$1.log | awk '/^test result:/ {p+=$4; f+=$6} END {printf "%d %d", p, f}'; }
feat=""
grep -q "benchmark" $d/meta.json && grep -qi "features mempool/benchmark\|--features" $d/meta.json && feat=$(python3 - "$d/meta.json" <<'PY'
import json,sys,re
m=json.load(open(sys.argv[1])); t=m.get("demo_test","")
r=re.search(r"--features[ =](\S+)", t); print(r.group(1) if r else "")
PY
)
git apply $d/patch.diff || { echo '{"error":"patch does not apply"}' > $d/confirm.json; exit 1; }
r1=$(run with_patch)
git apply $d/demo.diff || { echo '{"error":"demo does not apply"}' > $d/confirm.json; git checkout -q -- .; exit 1; }
if [ -n "$feat" ]; then
  r2=$(timeout 1500 unshare -n bash -c "ip link set lo up; exec cargo test --workspace --no-fail-fast --offline --features $feat" 2>&1 | tee $d/with_patch_demo.log | awk '/^test result:/ {p+=$4; f+=$6} END {printf "%d %d", p, f}')
else
  r2=$(run with_patch_demo)
fi
git apply -R $d/patch.diff
if [ -n "$feat" ]; then
  r3=$(timeout 1500 unshare -n bash -c "ip link set lo up; exec cargo test --workspace --no-fail-fast --offline --features $feat" 2>&1 | tee $d/demo_only.log | awk '/^test result:/ {p+=$4; f+=$6} END {printf "%d %d", p, f}')
else
  r3=$(run demo_only)
fi
failed=$(grep -E "^test .* FAILED|^    [a-z_:0-9]+$" $d/with_patch_demo.log | grep FAILED | awk '{print $2}' | sort -u | tr '\n' ' ')
git checkout -q -- . ; git clean -fdq -e SEED -e target -e Cargo.lock
echo "{\"with_patch\": \"$r1\", \"with_patch_and_demo\": \"$r2\", \"demo_only\": \"$r3\", \"failing_with_patch\": \"$failed\", \"features\": \"$feat\"}" > $d/confirm.json
cat $d/confirm.json
