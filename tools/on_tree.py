#!/usr/bin/env python3
"""Run checks against a scratch copy of /repo (a git ref and/or patches applied), never touching /repo or the
committed evidence.  usage: tools/on_tree.py [--ref REF] [--patch FILE]... [--keep] -- ID [ID...]
Prints, per check, the exit code and the violation keys.  The scratch worktree is removed afterwards."""
import argparse
import json
import os
import shutil
import subprocess
import sys
import tempfile

VERIF = os.path.dirname(os.path.dirname(os.path.abspath(__file__)))


def run_checks(ref, patches, ids, tier="quick", repo="/repo", quiet=False, env_extra=None):
    tmp = tempfile.mkdtemp(prefix="hsv-")
    wt = os.path.join(tmp, "repo")
    ev = os.path.join(tmp, "evidence")
    results = {}
    try:
        subprocess.run(["git", "-C", repo, "worktree", "add", "-q", "--detach", wt, ref], check=True)
        # Cargo.lock is gitignored in /repo: without it cargo re-resolves and rebuilds librocksdb-sys
        if os.path.exists(os.path.join(repo, "Cargo.lock")) and not os.path.exists(os.path.join(wt, "Cargo.lock")):
            shutil.copy(os.path.join(repo, "Cargo.lock"), os.path.join(wt, "Cargo.lock"))
        for p in patches:
            r = subprocess.run(["git", "-C", wt, "apply", os.path.abspath(p)], capture_output=True, text=True)
            if r.returncode != 0:
                results["_apply_error"] = "%s: %s" % (p, r.stderr.strip())
                return results
        env = dict(os.environ, HS_EVIDENCE_DIR=ev, HS_VIOLATION_DIR=os.path.join(tmp, "viol"))
        env.update(env_extra or {})
        for pid in ids:
            r = subprocess.run([os.path.join(VERIF, "check"), pid, "--tier", tier, "--repo", wt],
                               capture_output=True, text=True, env=env, cwd=VERIF)
            keys = []
            for line in r.stdout.splitlines():
                if line.startswith("  ") and ": [" in line:
                    keys.append(line.strip())
            results[pid] = {"exit": r.returncode, "violations": keys,
                            "tail": r.stdout.splitlines()[-1:] + r.stderr.splitlines()[-3:]}
    finally:
        subprocess.run(["git", "-C", repo, "worktree", "remove", "--force", wt], capture_output=True)
        shutil.rmtree(tmp, ignore_errors=True)
        subprocess.run(["git", "-C", repo, "worktree", "prune"], capture_output=True)
    return results


def main():
    ap = argparse.ArgumentParser()
    ap.add_argument("--ref", default="HEAD")
    ap.add_argument("--patch", action="append", default=[])
    ap.add_argument("--tier", default="quick")
    ap.add_argument("ids", nargs="+")
    a = ap.parse_args()
    res = run_checks(a.ref, a.patch, a.ids, a.tier)
    if "_apply_error" in res:
        print("APPLY-ERROR", res["_apply_error"])
        return 3
    for pid, r in res.items():
        print("== %s exit=%d violations=%d" % (pid, r["exit"], len(r["violations"])))
        for k in r["violations"]:
            print("   " + k[:300])
        if r["exit"] not in (0, 1):
            print("   TAIL:", r["tail"])
    return 0


if __name__ == "__main__":
    sys.exit(main())
