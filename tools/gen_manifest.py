#!/usr/bin/env python3
"""Regenerates /verif/MANIFEST.json from the table below (single source of truth for what is claimed)."""
import json
import os
import sys

VERIF = os.path.dirname(os.path.dirname(os.path.abspath(__file__)))

TRUST = ("rustc nightly's HIR/typeck/MIR is the program's meaning; third-party crates behave as documented "
         "(tokio mpsc FIFO/select!/oneshot, bincode+serde derive, ed25519-dalek, RocksDB); ")

# id -> (built?, category, technique, text, note, design_ref)
P = {
    "C01": (True, "other", "conjunction of the local safety obligations of 2-chain HotStuff (rules of C03,C04,C05,C09,C17,C19) re-evaluated on the type-checked program",
            "Decides the local obligations the 2-chain safety proof consumes (vote guard, one vote per round, verify-before-effect, "
            "commit rule, quorum arithmetic, leader check, aggregator distinctness); each is a necessary condition of agreement. "
            "Does NOT decide that they suffice (the inductive protocol proof).",
            TRUST + "the protocol-level safety argument itself is not checked.", "DESIGN.md §3 C01"),
    "C02": (True, "other", "path-condition + provenance rules and symbolic deque evaluation on Core::commit (HIR), who-may-write/who-may-send tables",
            "Decides: every block enqueued for delivery is guarded by its own round > last_committed_round; the drained order is "
            "oldest..newest,head (symbolic sequence evaluation of the queue operations); watermark written only here, monotonically; "
            "single tx_commit outlet; parent lookup returns genesis only for the genesis QC. Not the cross-call contiguity (rests on C01).",
            TRUST + "store returns what was written (C16).", "DESIGN.md §3 C02"),
    "C03": (True, "other", "structured path-condition extraction + propositional implication over canonical atoms; who-may-call tables; must-precede on HIR",
            "Decides the structural clauses of voting safety on every path of the source: single voting function, Vote::new guard implies "
            "round>last_voted ∧ (QC of r-1 ∨ TC of r-1 with qc.round ≥ max high-qc rounds), bump-before-sign with no await in between, "
            "last_voted_round written only via max(), timeout bumps before Timeout::new, round gate before voting.",
            TRUST + "persistence across restarts is out of the property's quantifier.", "DESIGN.md §3 C03"),
    "C04": (True, "other", "must-precede (verify dominates every effectful call) over the handler bodies; content rules on each verify(); error-discipline rule over verify call sites",
            "Decides verify-before-effect in every Core handler, the content of Block/Vote/QC/Timeout/TC::verify (membership, distinctness, "
            "stake accumulation over all votes, quorum comparison, signature over self.digest() by self.author / batch over votes), "
            "the crypto entry points and that no verify result is discarded. Not ed25519 unforgeability.",
            TRUST + "ed25519-dalek verify_strict/verify_batch semantics.", "DESIGN.md §3 C04"),
    "C05": (True, "other", "who-may-call tables + path-condition implication + argument provenance + wiring graph (loop-back senders)",
            "Decides: commit called only from process_block under b0.round+1==b1.round with (b0,b1) the parent chain of the block; every "
            "entry into process_block carries a verified/locally assembled QC (loop-back sender table); storage keys agree (digest/parent); "
            "no other route to tx_commit / last_committed_round.",
            TRUST + "C01 for cross-call facts.", "DESIGN.md §3 C05"),
    "C07": (True, "other", "argument provenance + wiring graph + must-precede rules on Synchronizer/Helper/Core",
            "Decides the structural clauses: helper replies with exactly the value stored under the requested digest to the requester; "
            "missing parent => request+park+resume (never dropped); retry broadcast with re-armed timer; store-after-ancestors; dispatch "
            "routing. Convergence (liveness) is NOT decided.",
            TRUST + "timing/connectivity.", "DESIGN.md §3 C07"),
    "C08": (True, "other", "path-condition + loop-completeness + provenance rules on MempoolDriver/PayloadWaiter/Processor; wiring graph",
            "Decides: process_block of a foreign block only under mempool_driver.verify()==true; verify reads every payload digest and returns "
            "true only when none is missing; missing => parked with exactly the missing set; waiter resumes only after all notify_reads; "
            "store.write awaited before the digest is announced.",
            TRUST + "store reads reflect writes (C16); no delete call exists (checked).", "DESIGN.md §3 C08"),
    "C09": (True, "other", "purity allow-list + sort-before-index + modular index on the leader elector; path-condition rules on proposal sites; who-may-call tables",
            "Decides: leader = sorted keys[round % n] computed from the committee alone; proposals processed only from that leader; "
            "Make requested only when self is leader of self.round after a round advance and behind the stale filters; single block signer; "
            "aggregator cleanup on advance. Absence of a second Make under all interleavings is argued, not machine-checked.",
            TRUST, "DESIGN.md §3 C09"),
    "C10": (True, "other", "who-may-write + monotone-write rule + provenance of round arguments + must-precede",
            "Decides: round written only by advance_round under r>=self.round; every advance/process_qc argument is the round of a verified "
            "or assembled certificate; high_qc is a running maximum folded on every processed QC before voting/proposing; Timeout::new "
            "carries self.high_qc and self.round.",
            TRUST, "DESIGN.md §3 C10"),
    "C11": (True, "other", "linear-resource + provenance rules on BatchMaker/Processor in both feature configurations; panic-site discharge of the batching path",
            "Decides: each received transaction is pushed at the tail and counted; seal under size>=batch_size right after the push; seal "
            "drains the full batch once and resets the size; stored/announced key = hash of the exact bytes stored; own and peer paths forward "
            "the serialized bytes unchanged; no input-dependent panic in the batching path (both configs). Not seal timing.",
            TRUST + "bincode byte fidelity.", "DESIGN.md §3 C11"),
    "C12": (True, "other", "path-condition implication + pairing provenance (unzip/zip) + wiring graph single-sender rule",
            "Decides: tx_batch.send only under total_stake >= quorum_threshold; total_stake starts at own stake and grows only by the stake of the "
            "peer whose ACK handle completed; names/handles pairing preserved; the QuorumWaiter is the only sender into the own-batch Processor.",
            TRUST + "oneshot/FuturesUnordered semantics.", "DESIGN.md §3 C12"),
    "C13": (True, "other", "wiring-graph path check (channels, network variants, store key classes) for digest flow and fetch-and-resume",
            "Decides only the second sentence as a path in the wiring graph: every hop of digest flow and of "
            "missing-batch fetch/resume exists with matching variant, address class and key class; retry exists; one shared Store. Eventual commit is NOT decided.",
            TRUST, "DESIGN.md §3 C13"),
    "C14": (True, "other", "deque gap typing + linear-resource analysis of (data, handler) pairs in reliable_sender::Connection",
            "Decides the queue discipline: every move between pending_replies and buffer preserves the logical order; nothing popped is lost; "
            "discards only under handler.is_closed(); ACK resolves the front of pending_replies; reconnect loop has no exit; handle plumbing per address. "
            "Delivery under eventual connectivity is NOT decided.",
            TRUST + "TCP/tokio-util framing.", "DESIGN.md §3 C14"),
    "C15": (True, "other", "exhaustive panic-site enumeration on pre-borrowck MIR (both feature configs) with machine-checked discharge rules; actor-immortality greatest fixpoint over the wiring graph",
            "Decides: every panic-capable MIR terminator reachable from Node::new, the dispatch impls and the wire decoders is discharged "
            "(CONST/GUARD/SER/EXH/PEER/SELECT/AUTH/ENV); decode errors are values; dispatch errors are local to a connection; services are immortal.",
            TRUST + "panics inside third-party crates and allocation failure are out of scope.", "DESIGN.md §3 C15"),
    "C16": (True, "other", "confinement (who-may-access) + await-free region + must-precede + linear reply handles on the store task",
            "Decides: DB handle and obligations confined to one task; command loop awaits only rx.recv(); put precedes wake; wake drains all "
            "waiters of the same key with the written value; notify-read parks under the same key on a miss, with no await between miss and park.",
            TRUST + "RocksDB durability and get-after-put.", "DESIGN.md §3 C16"),
    "C17": (True, "proof", "expression-DAG extraction of quorum_threshold + affine-floor normal form + interval overflow analysis + sibling agreement",
            "Proves (for the arithmetic clause): both committees compute floor(2S/3)+1 with S the u32 sum over all authorities, no overflow for "
            "S<2^31, stake(unknown)=0, every user compares with >=. The paper lemma q=n-f is in the trusted base.",
            "rustc's HIR for the two functions; interval rules for + - * / on u32; lemma O7.", "DESIGN.md §3 C17"),
    "C18": (True, "other", "codec pairing / layout rules on crypto wrapper (static widths from types) + totality via the C15 panic engine",
            "Decides the wrapper's structure: encode/decode use the same width N; decoders are total; signature split/flatten offsets; "
            "verify/verify_batch argument provenance; key files (de)serialize the same types. ed25519 semantics are NOT decided.",
            TRUST, "DESIGN.md §3 C18"),
    "C19": (True, "other", "must-precede + path-condition implication + provenance on QCMaker/TCMaker/Aggregator; sibling agreement of digests",
            "Decides: distinctness test before counting; certificate literals only under weight>=quorum right after accumulation; weight reset on "
            "success and used/votes never cleared; makers keyed by (round,digest)/round of the same message; certificate fields from the votes; "
            "verified inputs and stale filters.",
            TRUST, "DESIGN.md §3 C19"),
    "C20": (True, "proof", "pre-image layout extraction (hasher.update sequence with static byte widths from types) + length-set disjointness arithmetic + serde item facts",
            "Proves the structural clauses: digests cover the listed fields with fixed widths and at most one variable run; pre-image "
            "length sets of Block / Vote=QC / Timeout=TC are pairwise disjoint; one hash; wire/storage structs derive both serde directions "
            "with no skip/with/default on digested fields; stored blocks are decoded as the same type and re-sent unchanged.",
            "SHA-512 collision resistance; serde-derive + bincode fidelity; rustc's type layout facts.", "DESIGN.md §3 C20"),
}

NA = {
    "C06": "liveness under partial synchrony quantifies over message timing, timer expiries and delivery fairness - runtime "
           "quantities no sound static argument in reach bounds; a wiring check would be a proxy, not a decision (DESIGN.md §3 C06)",
}


def main():
    checks = []
    na = [{"property_id": k, "reason": v} for k, v in sorted(NA.items())]
    for pid in sorted(P):
        built, cat, tech, text, note, ref = P[pid]
        if not os.path.exists(os.path.join(VERIF, "hsrules", "props", pid.lower() + ".py")) or not built:
            na.append({"property_id": pid, "reason": "check not yet built in this snapshot of /verif (planned: %s)" % tech})
            continue
        checks.append({
            "property_id": pid,
            "quick_cmd": "./check %s --tier quick" % pid,
            "thorough_cmd": "./check %s --tier thorough" % pid,
            "evidence_file": "evidence/%s.json" % pid,
            "replay_cmd_template": "./check %s --replay {path}" % pid,
            "engine": "hsrules",
            "level_claimed": {"category": cat, "text": text, "design_ref": ref},
            "level_note": note,
            "technique": "static analysis: " + tech,
        })
    m = {
        "version": 1,
        "setup_cmd": "sh ./setup.sh",
        "hooks": {
            "guard": "hotstuff_verif",
            "enable": "none needed: the checks read /repo's type-checked source through a rustc driver "
                      "(cargo +nightly check with RUSTC_WORKSPACE_WRAPPER); no hook code exists in /repo",
            "baseline_off_cmd": "cd /repo && cargo test --workspace --no-fail-fast --offline",
            "source_commits": [],
            "add_only": True,
        },
        "engines": [
            {"name": "hsfacts", "path": "hsfacts", "serves_properties": sorted(P),
             "kind_free_text": "rustc_private driver (nightly): dumps resolved HIR expression trees, item facts and pre-borrowck MIR "
                               "(panic edges, dominators) of the six workspace crates in both feature configurations; executes nothing"},
            {"name": "hsrules", "path": "hsrules", "serves_properties": sorted(P),
             "kind_free_text": "repository-specific rule engine (Python stdlib): who-may-call tables, structured path conditions, "
                               "propositional implication, provenance terms, wiring graph, panic-site discharge, deque gap typing, "
                               "interval/affine arithmetic, pre-image layouts"},
        ],
        "checks": checks,
        "not_applicable": sorted(na, key=lambda x: x["property_id"]),
        "notes": "Technique family: static analysis only (no test, simulation or solver run). Every check re-extracts facts from /repo's current "
                 "working tree with a rustc_private driver (cached per tree hash), analyses BOTH feature configurations (default, benchmark) in the "
                 "quick tier, and reports a specific construct (file:line, function, rule instance). Where a property leans on a clause another "
                 "module decides, that module's rules are re-evaluated and reported under the property's own id (folds, DESIGN.md section 9). "
                 "thorough = quick + re-decision of every dominance query on pre-borrowck MIR dominators + replay of the property's "
                 "self-validation corpus (mutants/<ID>/*.patch and the seeded/<ID>-* changes recorded as detected by it) on scratch copies of "
                 "/repo's current tree; a corpus change that is not reported is a checker failure (exit 2) when /repo is the commit the corpus "
                 "was validated against, and a printed NOTE on any other tree. Repaired defects are listed as fixed: in known_findings.txt; there "
                 "are no open known findings. Validation corpora: 126 hand-written mutants, 146 behaviour-preserving refactors (all 19 checks must "
                 "stay silent), 197 confirmed breaking changes written by independent sub-agents in seeded/ (DESIGN.md sections 11-12).",
    }
    with open(os.path.join(VERIF, "MANIFEST.json"), "w") as fh:
        json.dump(m, fh, indent=1)
        fh.write("\n")
    print("checks:", [c["property_id"] for c in checks])
    print("not_applicable:", [x["property_id"] for x in m["not_applicable"]])


if __name__ == "__main__":
    main()
