#!/usr/bin/env python3
"""Markdown table of seeded changes (seeded/*/meta.json) for DESIGN.md."""
import glob, json, os
V = os.path.dirname(os.path.dirname(os.path.abspath(__file__)))
rows = []
for d in sorted(glob.glob(os.path.join(V, "seeded", "C*"))):
    m = json.load(open(os.path.join(d, "meta.json")))
    det = m.get("detected_by", {})
    own = m.get("property")
    ownr = ", ".join(det.get(own, [])) or "—"
    others = "; ".join("%s" % ",".join(v) for k, v in sorted(det.items()) if k != own and k != "C15" or (k == "C15" and own != "C15" and any("N" in x for x in v)))
    summ = (m.get("summary") or "").replace("|", "/").replace("\n", " ")
    if len(summ) > 150:
        summ = summ[:147] + "..."
    rows.append("| %s | %s | %s | %s |" % (os.path.basename(d), summ, ownr, others or ""))
print("| seed | change (one line) | rule(s) of the property's own check that fire | other checks that fire |")
print("|---|---|---|---|")
print("\n".join(rows))
