#!/usr/bin/env python3
"""False-alarm corpus: behaviour-preserving refactors in mutants/benign/*.patch must leave EVERY check silent.
usage: tools/benign.py [name-substring]"""
import glob
import os
import sys
from concurrent.futures import ThreadPoolExecutor

sys.path.insert(0, os.path.dirname(os.path.abspath(__file__)))
from on_tree import run_checks, VERIF  # noqa: E402
from seed_eval import built_ids  # noqa: E402


def one(p):
    r = run_checks("HEAD", [p], built_ids())
    if "_apply_error" in r:
        return (os.path.basename(p), "SKIP", [])
    fired = []
    for pid, x in r.items():
        if x["exit"] != 0:
            fired.append("%s(exit %d): %s" % (pid, x["exit"], (x["violations"][0][:230] if x["violations"] else " ".join(x["tail"])[-200:])))
    return (os.path.basename(p), "FALSE-ALARM" if fired else "silent", fired)


def main():
    sub = sys.argv[1] if len(sys.argv) > 1 else ""
    ps = [p for p in sorted(glob.glob(os.path.join(VERIF, "mutants", "benign", "*.patch"))) if sub in p]
    bad = 0
    with ThreadPoolExecutor(max_workers=4) as ex:
        for name, verdict, fired in ex.map(one, ps):
            print("%-34s %s" % (name, verdict))
            for f in fired:
                print("      " + f)
            bad += verdict == "FALSE-ALARM"
    print("benign: %d run, %d false alarms" % (len(ps), bad))
    return 1 if bad else 0


if __name__ == "__main__":
    sys.exit(main())
