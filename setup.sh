#!/bin/sh
# MANIFEST.setup_cmd: build the hsfacts rustc driver and prime the dependency cache for both
# feature configurations (offline; third-party crates incl. librocksdb-sys are compiled once here,
# every later check only re-analyses the six workspace crates).
set -e
cd "$(dirname "$0")"
export CARGO_NET_OFFLINE=true
(cd hsfacts && cargo build --release --offline)
python3 -m hsrules.facts setup
