"""Program model over the fact base: normalisation (re-sugaring of macro expansions),
function/struct indexes, parent maps, site queries (A1)."""
from . import ir

PAT_KINDS = {"pwild", "pnever", "pbind", "pstruct", "ptstruct", "por", "ptuple", "pderef", "pref", "pexpr",
             "pguard", "prange", "pslice", "perr"}
LOG_MACROS = {"debug", "info", "warn", "error", "trace", "log"}
PANIC_FNS = ("core::panicking::panic", "core::panicking::panic_fmt", "std::panicking::begin_panic",
             "core::panicking::panic_display", "core::panicking::unreachable_display",
             "core::panicking::panic_explicit", "std::rt::begin_panic", "core::panicking::panic_nounwind")


def user_subtrees(n):
    """Maximal sub-nodes of an expanded subtree that are user code (not from expansion)."""
    out = []
    stack = [n]
    while stack:
        x = stack.pop()
        if not ir.is_node(x):
            continue
        if "m" not in x and x["k"] not in PAT_KINDS:
            out.append(x)
            continue
        stack.extend(reversed(list(ir.children(x))))
    return out


def _outer_macro(n):
    m = n.get("m")
    return m[-1] if m else None


def _has_macro(n, names):
    m = n.get("m")
    return bool(m) and any(x in names for x in m)


def _select_resugar(n, norm):
    """n: block node produced by tokio::select!. Returns a select node or None."""
    futs = None
    out_match = None
    pre = []
    for x in ir.walk(n, into_closures=False):
        if x["k"] == "slet" and ir.is_node(x.get("pat")) and x["pat"].get("name") == "futures_init" and "init" in x:
            if x["init"]["k"] == "tup":
                futs = x["init"]["es"]
            else:
                futs = [x["init"]]
    # final match: last expr of the block
    tail = n.get("expr")
    if tail is None or tail["k"] != "match":
        return None
    out_match = tail
    if futs is None:
        return None
    branches = []
    else_body = None
    disabled_panics = False
    for arm in out_match["arms"]:
        p = arm["pat"]
        if p["k"] == "ptstruct" and "__tokio_select_util::Out::_" in p["path"]:
            idx = int(p["path"].rsplit("_", 1)[1])
            branches.append({"i": idx, "fut": norm(futs[idx]) if idx < len(futs) else None,
                             "pat": p["pats"][0] if p["pats"] else None, "body": norm(arm["body"])})
        elif p["k"] in ("pexpr", "ptstruct", "pstruct") and str(p.get("path", "")).endswith("Out::Disabled"):
            body = arm["body"]
            if any(x["k"] in ("call",) and x.get("fn", "").startswith(("core::panicking", "std::panicking"))
                   for x in ir.walk(body)):
                disabled_panics = True
            else:
                else_body = norm(body)
    branches.sort(key=lambda b: b["i"])
    # polling order: tokio::select! starts at a random branch (`let start = thread_rng_n(BRANCHES)`) unless `biased;` was
    # written, in which case the branches are always polled in source order (`let start = 0`)
    fair = None
    for x in ir.walk(n, into_closures=True):
        if x["k"] == "slet" and ir.is_node(x.get("pat")) and x["pat"].get("name") == "start" and "select" in (x.get("m") or []) and "init" in x:
            fair = any(y["k"] == "call" and y.get("fn", "").endswith("thread_rng_n") for y in ir.walk(x["init"]))
            break
    node = {"k": "select", "sp": n["sp"], "branches": branches, "disabled_panics": disabled_panics, "fair": fair}
    if "ty" in n:
        node["ty"] = n["ty"]
    if else_body is not None:
        node["else"] = else_body
    return node


def normalize(n):
    """Return a normalised copy of a tree: log!/panic!/select! re-sugared."""
    if isinstance(n, list):
        return [normalize(x) for x in n]
    if not isinstance(n, dict):
        return n
    if ir.is_node(n):
        m = n.get("m")
        if m:
            if any(x in LOG_MACROS for x in m) and n["k"] in ("block", "if", "call", "match"):
                level = next((x for x in m if x in LOG_MACROS and x != "log"), "log")
                return {"k": "log", "sp": n["sp"], "level": level,
                        "args": [normalize(u) for u in user_subtrees(n)], "ty": "()"}
            if "select" in m and n["k"] == "block":
                s = _select_resugar(n, normalize)
                if s is not None:
                    return s
        if n["k"] == "call" and n.get("fn", "") in PANIC_FNS or (
                n["k"] == "call" and n.get("fn", "").startswith(("core::panicking::", "std::panicking::"))):
            mac = next((x for x in (m or []) if x in ("panic", "unreachable", "assert", "assert_eq", "assert_ne",
                                                      "unimplemented", "todo", "debug_assert")), None)
            return {"k": "panic", "sp": n["sp"], "mac": mac or "panic", "fn": n["fn"],
                    "args": [normalize(u) for u in user_subtrees(n) if u is not n], "ty": "!", "m": m or []}
    out = {}
    for key, v in n.items():
        if isinstance(v, (dict, list)) and key != "m":
            out[key] = normalize(v)
        else:
            out[key] = v
    return out


def _recv_loop(n, tail):
    """`loop { let P = match E { Some(v) => v, None => break }; REST }` is `while let Some(P) = E { REST }` (with `return`
    instead of `break` when nothing follows the loop).  Returns the while node or None."""
    body = n.get("body")
    if not ir.is_node(body) or body["k"] != "block" or not body.get("stmts"):
        return None
    st = body["stmts"][0]
    if st["k"] != "slet" or "init" not in st or "els" in st or st["init"]["k"] != "match":
        return None
    m = st["init"]
    if len(m["arms"]) != 2 or any("guard" in a for a in m["arms"]):
        return None
    some = next((a for a in m["arms"] if a["pat"]["k"] == "ptstruct" and a["pat"].get("path") == "core::option::Option::Some"), None)
    none = next((a for a in m["arms"] if a is not some), None)
    if some is None or none is None:
        return None
    np_ = none["pat"]
    if not (np_["k"] == "pwild" or (np_["k"] in ("pexpr", "ptstruct") and np_.get("path") == "core::option::Option::None")):
        return None
    ex = none["body"]
    while ex["k"] == "block" and not ex.get("stmts") and "expr" in ex:
        ex = ex["expr"]
    if ex["k"] == "break":
        if "e" in ex or ex.get("label") not in (None, n.get("label")):
            return None
    elif ex["k"] == "ret":
        if "e" in ex or not tail:
            return None
    else:
        return None
    sp_ = some["pat"]["pats"]
    sb = some["body"]
    while sb["k"] == "block" and not sb.get("stmts") and "expr" in sb:
        sb = sb["expr"]
    if len(sp_) != 1 or sp_[0]["k"] != "pbind" or sb["k"] != "var" or sb.get("id") != sp_[0].get("id"):
        return None
    rest = dict(body)
    rest["stmts"] = body["stmts"][1:]
    w = {"k": "while", "sp": n["sp"], "ty": "()",
         "c": {"k": "let", "sp": m["sp"], "ty": "bool",
               "pat": {"k": "ptstruct", "sp": some["pat"]["sp"], "ty": some["pat"].get("ty"), "path": "core::option::Option::Some", "pats": [st["pat"]]},
               "init": m["scrut"]},
         "body": rest}
    if "label" in n:
        w["label"] = n["label"]
    return w


def resugar_loops(n, tail=True):
    """Post-pass over a normalised tree (in place); `tail`: n is in tail position of a function / closure body."""
    if isinstance(n, list):
        return [resugar_loops(x, False) for x in n]
    if not isinstance(n, dict):
        return n
    k = n.get("k")
    if k == "select":
        for b in n["branches"]:
            for key in ("fut", "pat", "body"):
                if ir.is_node(b.get(key)):
                    b[key] = resugar_loops(b[key], False)
        if ir.is_node(n.get("else")):
            n["else"] = resugar_loops(n["else"], False)
        return n
    if k == "closure":
        n["body"] = resugar_loops(n["body"], True)
        return n
    if k == "block":
        ss = n.get("stmts", [])
        for i, x in enumerate(ss):
            ss[i] = resugar_loops(x, tail and i == len(ss) - 1 and "expr" not in n)
        if "expr" in n:
            n["expr"] = resugar_loops(n["expr"], tail)
        return n
    if k in ("await", "semi") and ir.is_node(n.get("e")):
        n["e"] = resugar_loops(n["e"], tail and k == "semi")
        return n
    for key, v in list(n.items()):
        if key != "m" and isinstance(v, (dict, list)):
            n[key] = resugar_loops(v, False)
    if k == "loop":
        w = _recv_loop(n, tail)
        if w is not None:
            return w
    return n


ir.CHILD_KEYS = ir.CHILD_KEYS  # (select branches handled in children below)
_orig_children = ir.children


def _children(n):
    if isinstance(n, dict) and n.get("k") == "select":
        for b in n["branches"]:
            if ir.is_node(b.get("fut")):
                yield b["fut"]
            if ir.is_node(b.get("pat")):
                yield b["pat"]
            if ir.is_node(b.get("body")):
                yield b["body"]
        if ir.is_node(n.get("else")):
            yield n["else"]
        return
    yield from _orig_children(n)


ir.children = _children


def _strip_wrappers(body):
    """Unwrap `{ Box::pin(async move {..}) }` (async_trait / async_recursion) and plain async fn bodies.
    Returns (effective block node, is_async)."""
    b = body
    is_async = False
    changed = True
    while changed:
        changed = False
        if b["k"] == "block" and not b.get("stmts") and "expr" in b:
            e = b["expr"]
            if e["k"] == "call" and e.get("fn", "").startswith("alloc::boxed::Box") and e["fn"].endswith("::pin") \
                    and e["args"] and e["args"][0]["k"] == "closure" and e["args"][0].get("ck") == "async":
                b = e["args"][0]["body"]
                is_async = True
                changed = True
                continue
        if b["k"] == "closure" and b.get("ck") == "async":
            b = b["body"]
            is_async = True
            changed = True
    return b, is_async


class Fn:
    def __init__(self, crate, rec):
        self.crate = crate
        self.path = rec["path"]
        self.name = rec["name"]
        self.kind = rec["kind"]
        self.sp = rec["sp"]
        self.lines = rec.get("lines")
        self.self_ty = rec.get("self")
        self.trait = rec.get("trait")
        self.derived = rec.get("derived", False)
        self.attrs = rec.get("attrs") or []
        self.macros = rec.get("m") or []
        self.ret = rec.get("ret")
        self.vis = rec.get("vis")
        self.params = rec.get("params", [])
        self.raw_body = rec["body"]
        nb = resugar_loops(normalize(rec["body"]))
        self.full_body, wrapped_async = _strip_wrappers(nb)
        self.is_async = bool(rec.get("is_async")) or wrapped_async
        # async fn bodies are `{ let p = p; ...; { user body } }`: expose the user body, keep the rebinding lets
        # reachable through full_body for binding discovery.
        self.body = self.full_body
        b = self.full_body
        if b["k"] == "block" and "expr" in b and b["expr"]["k"] == "block" and b.get("stmts") and all(
                st["k"] == "slet" and st["pat"]["k"] == "pbind" and "init" in st and st["init"]["k"] == "var"
                for st in b["stmts"]):
            self.body = b["expr"]
        self._parents = None
        self._alias = None
        self.file = self.sp.rsplit(":", 2)[0]

    # parent map: id(node) -> (parent, slot)
    def parents(self):
        if self._parents is None:
            pm = {}
            stack = [self.full_body]
            while stack:
                x = stack.pop()
                for c in ir.children(x):
                    pm[id(c)] = x
                    stack.append(c)
            self._parents = pm
        return self._parents

    def ancestors(self, n):
        pm = self.parents()
        cur = n
        while id(cur) in pm:
            cur = pm[id(cur)]
            yield cur

    def nodes(self):
        return ir.walk(self.full_body)

    def loc(self, n=None):
        return (n or {}).get("sp", self.sp)

    def __repr__(self):
        return "Fn(%s)" % self.path


class Program:
    def __init__(self, crates, config):
        self.config = config
        self.crates = crates
        self.fns = {}
        self.structs = {}
        self.enums = {}
        self.impls = []
        self.aliases = {}
        self.mir = {}
        self.features = {}
        for cname, c in crates.items():
            self.features[c["crate"]] = c.get("features", [])
            for s in c["items"]["structs"]:
                self.structs[s["path"]] = s
            for e in c["items"]["enums"]:
                self.enums[e["path"]] = e
            for i in c["items"]["impls"]:
                i = dict(i, crate=c["crate"])
                self.impls.append(i)
            for a in c["items"]["aliases"]:
                self.aliases[a["path"]] = a["ty"]
            for f in c["fns"]:
                if f["kind"] in ("fn", "method", "const", "static"):
                    key = f["path"]
                    if key in self.fns and f["kind"] == "const":
                        continue
                    self.fns[key] = Fn(c["crate"], f)
            for m in c["mir"]:
                self.mir[m["def"]] = m

    # ---------- lookups ----------
    def fn(self, path):
        return self.fns.get(path)

    def fns_named(self, suffix):
        return [f for p, f in self.fns.items() if p == suffix or p.endswith("::" + suffix)]

    def methods_of(self, self_ty):
        return [f for f in self.fns.values() if f.self_ty == self_ty]

    def user_fns(self):
        """Functions written in the repository (not derive/serde/thiserror generated)."""
        for f in self.fns.values():
            if f.derived or f.kind not in ("fn", "method"):
                continue
            if any(x in ("Serialize", "Deserialize", "Error", "Debug", "Clone") for x in f.macros) and "async_trait" not in f.macros:
                continue
            yield f

    # ---------- A1: sites ----------
    def call_sites(self, pred, fns=None):
        """All call/mcall/fnref nodes whose resolved callee satisfies pred(path, inst)."""
        out = []
        for f in (fns if fns is not None else self.fns.values()):
            for n in f.nodes():
                if n["k"] in ("call", "mcall", "fnref") and "fn" in n:
                    if pred(n["fn"], n.get("inst")):
                        out.append((f, n))
        return out

    def calls_to(self, *paths, fns=None):
        ps = set(paths)
        return self.call_sites(lambda p, i: p in ps or (i in ps if i else False), fns)

    def struct_lits(self, path, fns=None):
        out = []
        for f in (fns if fns is not None else self.fns.values()):
            for n in f.nodes():
                if n["k"] == "struct" and n.get("path") == path:
                    out.append((f, n))
        return out

    def ctor_sites(self, path, fns=None):
        out = []
        for f in (fns if fns is not None else self.fns.values()):
            for n in f.nodes():
                if n["k"] in ("ctor", "ctorref") and n.get("path") == path:
                    out.append((f, n))
        return out

    def field_writes(self, of, name, fns=None):
        """Assignments (=, op=), &mut borrows and &mut-self method calls on field `of.name`."""
        out = []
        for f in (fns if fns is not None else self.fns.values()):
            for n in f.nodes():
                k = n["k"]
                if k in ("assign", "assignop"):
                    t = root_field(n["l"])
                    if t is not None and t.get("of") == of and t["name"] == name:
                        out.append((f, n, k))
                elif k == "ref" and n.get("mut"):
                    t = root_field(n["e"])
                    if t is not None and t.get("of") == of and t["name"] == name:
                        out.append((f, n, "refmut"))
                elif k == "mcall":
                    t = n["recv"]
                    if t["k"] == "field" and t.get("of") == of and t["name"] == name:
                        out.append((f, n, "mcall:" + n["name"]))
        return out

    def field_reads(self, of, name, fns=None):
        out = []
        for f in (fns if fns is not None else self.fns.values()):
            for n in f.nodes():
                if n["k"] == "field" and n.get("of") == of and n["name"] == name:
                    out.append((f, n))
        return out


def root_field(n):
    """For an lvalue like self.a.b[i] return the outermost *field* node (a.b -> node for .b), through
    index/deref."""
    while True:
        if n["k"] == "field":
            return n
        if n["k"] == "index":
            n = n["e"]
            continue
        if n["k"] == "un" and n.get("op") == "*":
            n = n["e"]
            continue
        return None
