"""Generic analyses over the normalised IR.

A2  structured path condition          pathcond()
A3  atom canonicalisation + implication Formula helpers, implies()
A4  must-precede (structured dominance) dominators(), preceded_by()
A5  argument provenance / canonical terms  Ctx.term()
"""
import itertools
from . import ir

STRIP_METHODS = {"clone", "to_owned", "as_ref", "as_mut", "borrow", "borrow_mut", "into", "deref",
                 "deref_mut", "as_slice", "as_mut_slice", "by_ref"}
ITER_STRIP = {"iter", "into_iter", "iter_mut", "cloned", "copied"}
ITER_ADAPTORS = {"map", "filter", "filter_map", "for_each", "any", "all", "retain", "find", "position",
                 "flat_map", "take_while", "skip_while", "inspect", "fold", "map_while", "find_map",
                 "retain_mut", "partition", "max_by_key", "min_by_key", "sort_by_key", "then"}
ELEM_PRESERVING = {"filter", "inspect", "skip_while", "take_while", "rev", "skip", "take", "peekable", "by_ref",
                   "step_by", "fuse"}
OK_PASSTHROUGH = {"map_err", "map", "or_else", "context"}  # Result/Option combinators keeping Ok-ness (map keeps)
UNSIGNED = {"u8", "u16", "u32", "u64", "u128", "usize"}

DOM_LOG = None   # set to a list by the thorough tier: every dominance query is logged for the MIR cross-check

# ----------------------------------------------------------------------------- formulas
T = ("T",)
F = ("F",)


def Atom(key):
    return ("atom", key)


def Not(f):
    if f == T:
        return F
    if f == F:
        return T
    if f[0] == "not":
        return f[1]
    return ("not", f)


def And(*fs):
    out = []
    for f in fs:
        if f == T:
            continue
        if f == F:
            return F
        if f[0] == "and":
            out.extend(f[1])
        else:
            out.append(f)
    if not out:
        return T
    if len(out) == 1:
        return out[0]
    return ("and", out)


def Or(*fs):
    out = []
    for f in fs:
        if f == F:
            continue
        if f == T:
            return T
        if f[0] == "or":
            out.extend(f[1])
        else:
            out.append(f)
    if not out:
        return F
    if len(out) == 1:
        return out[0]
    return ("or", out)


def atoms_of(f, acc=None):
    if acc is None:
        acc = []
    if f[0] == "atom":
        if f[1] not in acc:
            acc.append(f[1])
    elif f[0] == "not":
        atoms_of(f[1], acc)
    elif f[0] in ("and", "or"):
        for x in f[1]:
            atoms_of(x, acc)
    return acc


def evalf(f, asg):
    t = f[0]
    if t == "T":
        return True
    if t == "F":
        return False
    if t == "atom":
        return asg[f[1]]
    if t == "not":
        return not evalf(f[1], asg)
    if t == "and":
        return all(evalf(x, asg) for x in f[1])
    if t == "or":
        return any(evalf(x, asg) for x in f[1])
    raise ValueError(f)


def show(f):
    t = f[0]
    if t == "T":
        return "true"
    if t == "F":
        return "false"
    if t == "atom":
        return f[1]
    if t == "not":
        return "!" + show(f[1])
    if t == "and":
        return "(" + " && ".join(show(x) for x in f[1]) + ")"
    if t == "or":
        return "(" + " || ".join(show(x) for x in f[1]) + ")"
    return str(f)


def cmp_formula(op, a, b):
    """Formula for `a op b` over canonical atoms lt(x,y)/eq(x,y) with x<y lexicographically."""
    if a == b:
        return T if op in ("==", "<=", ">=") else F
    if op in (">", ">="):
        a, b = b, a
        op = "<" if op == ">" else "<="
    # now op in <, <=, ==, !=
    swapped = False
    if a > b:
        a, b = b, a
        swapped = True
    L = Atom("lt(%s,%s)" % (a, b))
    E = Atom("eq(%s,%s)" % (a, b))
    if op == "==":
        return E
    if op == "!=":
        return Not(E)
    if not swapped:
        return L if op == "<" else Or(L, E)
    # original was b' op a'  i.e.  (b < a) or (b <= a) in canonical names
    if op == "<":
        return And(Not(L), Not(E))
    return Not(L)


UNSIGNED_TERMS = set()     # canonical terms seen in a comparison typed as an unsigned integer
UNSIGNED_TYS = ("u8", "u16", "u32", "u64", "u128", "usize")


def consistent(asg, extra_constraints=()):
    for k, v in asg.items():
        if v and k.startswith("lt("):
            e = "eq(" + k[3:]
            if asg.get(e):
                return False
        if not v and k.startswith("lt(0,") and k[5:-1] in UNSIGNED_TERMS:
            # an unsigned x is either 0 or greater: `x > 0`, `x != 0`, `x >= 1` are the same test
            e = "eq(" + k[3:]
            if e in asg and not asg[e]:
                return False
    for c in extra_constraints:
        if not evalf(c, asg):
            return False
    return True


def implies(guard, required, constraints=(), max_atoms=16):
    """Truth-table implication guard => required, atoms independent except lt/eq exclusivity
    and the given constraint formulas (which must mention only atoms that are enumerated).
    Returns (ok, counterexample-or-None)."""
    atoms = atoms_of(guard)
    atoms_of(required, atoms)
    for c in constraints:
        atoms_of(c, atoms)
    if len(atoms) > max_atoms:
        return False, {"too_many_atoms": len(atoms)}
    for vals in itertools.product((False, True), repeat=len(atoms)):
        asg = dict(zip(atoms, vals))
        if not consistent(asg, constraints):
            continue
        if evalf(guard, asg) and not evalf(required, asg):
            return False, {k: v for k, v in asg.items()}
    return True, None


# ----------------------------------------------------------------------------- per-function context
def peel_ty(t):
    if t is None:
        return "?"
    t = t.strip()
    while True:
        if t.startswith("&"):
            t = t[1:].lstrip()
            if t.startswith("'"):
                t = t.split(" ", 1)[1] if " " in t else t
            if t.startswith("mut "):
                t = t[4:]
            continue
        if t.startswith("alloc::boxed::Box<") and t.endswith(">"):
            t = t[len("alloc::boxed::Box<"):-1]
            continue
        break
    return t


def short_ty(t):
    t = peel_ty(t)
    base = t.split("<", 1)[0]
    return base.rsplit("::", 1)[-1] + (("<" + t.split("<", 1)[1]) if "<" in t and base.startswith(("alloc::vec", "core::option")) else "")


def variant_name(path):
    return path.rsplit("::", 1)[-1]


class Ctx:
    """Binding/provenance context of one function (including its closures)."""

    def __init__(self, prog, fn):
        self.prog = prog
        self.fn = fn
        self.defs = {}      # var id -> (kind, payload...)
        self.assigned = set()
        self.names = {}
        self._term_cache = {}
        self._collect()

    # ---- binding discovery
    def _bind(self, pat, base, path):
        k = pat["k"]
        if k == "pbind":
            self.defs[pat["id"]] = (base, tuple(path), pat)
            self.names[pat["id"]] = pat["name"]
            if "sub" in pat:
                self._bind(pat["sub"], base, path)
        elif k == "ptstruct":
            v = variant_name(pat["path"])
            single = len(pat["pats"]) == 1 and v in ("Some", "Ok", "Err")
            for i, sp in enumerate(pat["pats"]):
                self._bind(sp, base, path + ([v] if single else [v, str(i)]))
        elif k == "pstruct":
            for f in pat["fields"]:
                self._bind(f["pat"], base, path + [f["name"]])
        elif k == "ptuple":
            for i, sp in enumerate(pat["pats"]):
                self._bind(sp, base, path + [str(i)])
        elif k in ("pref", "pderef"):
            self._bind(pat["pat"], base, path)
        elif k == "pguard":
            self._bind(pat["pat"], base, path)
        elif k == "por":
            for sp in pat["pats"]:
                self._bind(sp, base, path)
        elif k == "pslice":
            for i, sp in enumerate(pat["pats"]):
                self._bind(sp, base, path + ["[%d]" % i])

    def _collect(self):
        fn = self.fn
        same = {}
        for i, p in enumerate(fn.params):
            if p["k"] == "pbind" and p["name"] in ("self", "__self"):
                continue
            t = short_ty(p.get("ty"))
            same.setdefault(t, []).append(i)
        for i, p in enumerate(fn.params):
            t = short_ty(p.get("ty"))
            if p["k"] == "pbind" and p["name"] in ("self", "__self"):
                label = "self"
            else:
                label = "«%s»" % t if len(same[t]) == 1 else "«%s#%d»" % (t, same[t].index(i))
            self._bind(p, ("param", label), [])
        for n in ir.walk(fn.full_body):
            k = n["k"]
            if k == "slet":
                if "init" in n:
                    self._bind(n["pat"], ("expr", n["init"]), [])
                else:
                    self._bind(n["pat"], ("uninit", n), [])
            elif k == "let":
                self._bind(n["pat"], ("expr", n["init"]), [])
            elif k == "match":
                for a in n["arms"]:
                    self._bind(a["pat"], ("expr", n["scrut"]), [])
            elif k == "for":
                self._bind(n["pat"], ("elem", n["iter"]), [])
            elif k == "closure":
                for i, p in enumerate(n.get("params", [])):
                    self._bind(p, ("cparam", n, i), [])
            elif k == "select":
                for b in n["branches"]:
                    if b.get("pat") is not None and b.get("fut") is not None:
                        self._bind(b["pat"], ("sel", b["fut"]), [])
            elif k in ("assign", "assignop"):
                v = n["l"]
                while v["k"] in ("field", "index") or (v["k"] == "un" and v.get("op") == "*"):
                    v = v["e"]
                if v["k"] == "var" and n["l"]["k"] == "var":
                    self.assigned.add(v["id"])
        # stable per-kind ordinals (pre-order) used instead of source positions in canonical terms
        self._ord = {}
        cnt = {}
        for n in ir.walk(fn.full_body):
            c = cnt.get(n["k"], 0)
            cnt[n["k"]] = c + 1
            self._ord[id(n)] = c
        # closure parents for cparam resolution
        self._closure_parent = {}
        pm = fn.parents()
        for n in ir.walk(fn.full_body):
            if n["k"] == "closure":
                self._closure_parent[id(n)] = pm.get(id(n))

    # ---- canonical terms (A5)
    def term(self, n, depth=0):
        if n is None:
            return "∅"
        if depth > 40:
            return "…"
        k = n["k"]
        if k == "var":
            return self.var_term(n["id"], n["name"], depth)
        if k == "field":
            return self.term(n["e"], depth + 1) + "." + n["name"]
        if k in ("ref", "cast") or (k == "un" and n.get("op") == "*"):
            return self.term(n["e"], depth + 1)
        if k in ("try", "await"):
            return self.term(n["e"], depth + 1)
        if k == "lit":
            v = n.get("v") or {}
            for key in ("int", "bool", "str", "char", "bytes", "float"):
                if key in v:
                    return repr(v[key]) if key in ("str", "bytes") else str(v[key]).lower() if key == "bool" else str(v[key])
            return "lit"
        if k == "mcall":
            name = n["name"]
            if name in STRIP_METHODS and not n["args"]:
                return self.term(n["recv"], depth + 1)
            if name in ITER_STRIP and not n["args"]:
                return self.term(n["recv"], depth + 1)
            if name in ("unwrap", "expect"):
                return self.term(n["recv"], depth + 1)
            args = ",".join(self.term(a, depth + 1) for a in n["args"])
            return "%s.%s(%s)" % (self.term(n["recv"], depth + 1), name, args)
        if k == "call":
            fnp = n["fn"]
            short = fnp.rsplit("::", 1)[-1]
            if short in ("from", "into", "into_future", "into_iter") and len(n["args"]) == 1 and fnp.startswith("core::"):
                return self.term(n["args"][0], depth + 1)
            if fnp in ("core::mem::take", "std::mem::take") and len(n["args"]) == 1 and peel_ty(n.get("ty", "")).startswith("alloc::vec::Vec<"):
                # moving a whole Vec out (leaving it empty) = draining its full range, in order, into a new Vec
                return "%s.drain(RangeFull{}).collect()" % self.term(n["args"][0], depth + 1)
            if fnp in ("core::cmp::max", "core::cmp::min", "std::cmp::max", "std::cmp::min"):
                args = sorted(self.term(a, depth + 1) for a in n["args"])
                return "%s(%s)" % (short, ",".join(args))
            return "%s(%s)" % (canon_fn(fnp), ",".join(self.term(a, depth + 1) for a in n["args"]))
        if k == "ctor":
            args = n.get("args") or []
            return variant_name(n["path"]) + ("(%s)" % ",".join(self.term(a, depth + 1) for a in args) if args else "")
        if k == "bin":
            l = self.term(n["l"], depth + 1)
            r = self.term(n["r"], depth + 1)
            op = n["op"]
            if op in ("+", "*") and l > r:
                l, r = r, l
            return "(%s%s%s)" % (l, op, r)
        if k == "un":
            return n["op"] + self.term(n["e"], depth + 1)
        if k == "index":
            return "%s[%s]" % (self.term(n["e"], depth + 1), self.term(n["i"], depth + 1))
        if k == "array":
            return "[" + ",".join(self.term(e, depth + 1) for e in n["es"]) + "]"
        if k == "tup":
            return "(" + ",".join(self.term(e, depth + 1) for e in n["es"]) + ")"
        if k == "block" and not n.get("stmts") and "expr" in n:
            return self.term(n["expr"], depth + 1)
        if k == "const":
            return n["path"]
        if k == "struct":
            return "%s{%s}" % (variant_name(n["path"]), ",".join("%s:%s" % (f["name"], self.term(f["e"], depth + 1)) for f in n["fields"]))
        if k == "match":
            live = [a for a in n["arms"] if not diverges(a["body"])]
            if len(live) == 1:
                return self.term(live[0]["body"], depth + 1)
        if k == "if" and "e" in n:
            if diverges(n["e"]) and not diverges(n["t"]):
                return self.term(n["t"], depth + 1)
            if diverges(n["t"]) and not diverges(n["e"]):
                return self.term(n["e"], depth + 1)
        if k == "closure":
            return "λ#%d" % self._ord.get(id(n), -1)
        if k == "fnref":
            return canon_fn(n["fn"])
        return "<%s#%d>" % (k, self._ord.get(id(n), -1))

    def var_term(self, vid, name, depth=0):
        if vid in self._term_cache:
            return self._term_cache[vid]
        d = self.defs.get(vid)
        if d is None:
            return "local:" + name
        base, path, _pat = d
        suffix = "".join("." + p for p in path)
        res = None
        if base[0] == "param":
            res = base[1] + suffix
        elif vid in self.assigned or (_pat.get("mut") and not _pat.get("byref")):
            res = "local:" + name
        elif base[0] == "expr":
            res = self.term(base[1], depth + 1) + suffix
        elif base[0] == "elem":
            res = self.term(base[1], depth + 1) + "[*]" + suffix
        elif base[0] == "sel":
            res = "sel(" + self.term(base[1], depth + 1) + ")" + suffix
        elif base[0] == "cparam":
            clo, idx = base[1], base[2]
            par = self._closure_parent.get(id(clo))
            rty = peel_ty(par["recv"].get("ty")) if par is not None and par["k"] == "mcall" else ""
            if par is not None and par["k"] == "mcall" and len(clo.get("params", [])) == 1 and \
                    rty.startswith(("core::result::Result", "core::option::Option")):
                # closure over the payload of a Result/Option: `r.map(|x| ..)` binds x = r.Ok, `map_err` binds r.Err
                if rty.startswith("core::option::Option"):
                    proj = ".Some"
                else:
                    proj = ".Err" if par["name"] in ("map_err", "or_else", "unwrap_or_else") else ".Ok"
                res = self.term(par["recv"], depth + 1) + proj + suffix
            elif par is not None and par["k"] == "mcall" and par["name"] in ITER_ADAPTORS and len(clo.get("params", [])) == 1:
                # an element of a filtered/reordered iterator is an element of the underlying collection
                base = par["recv"]
                while base["k"] == "mcall" and base["name"] in ELEM_PRESERVING:
                    base = base["recv"]
                res = self.term(base, depth + 1) + "[*]" + suffix
            else:
                res = "λ%d" % idx + suffix
        else:
            res = "local:" + name
        self._term_cache[vid] = res
        return res

    def var_def(self, vid):
        return self.defs.get(vid)

    def origin_node(self, n, depth=0):
        """Follow let-aliases / identity wrappers to the defining expression node."""
        while depth < 30:
            depth += 1
            k = n["k"]
            if k in ("ref", "try", "await", "cast") or (k == "un" and n.get("op") == "*"):
                n = n["e"]
                continue
            if k == "mcall" and n["name"] in STRIP_METHODS and not n["args"]:
                n = n["recv"]
                continue
            if k == "block" and not n.get("stmts") and "expr" in n:
                n = n["expr"]
                continue
            if k == "var":
                d = self.defs.get(n["id"])
                if d and d[0][0] == "expr" and not d[1] and n["id"] not in self.assigned and not d[2].get("mut"):
                    n = d[0][1]
                    continue
            return n
        return n

    # ---- formulas of boolean expressions
    def pat_test(self, pat, scrut_term):
        k = pat["k"]
        if k == "pbind":
            return self.pat_test(pat["sub"], scrut_term) if "sub" in pat else T
        if k == "pwild":
            return T
        if k in ("pref", "pderef"):
            return self.pat_test(pat["pat"], scrut_term)
        if k == "ptstruct" or k == "pstruct" or (k == "pexpr" and "path" in pat):
            v = variant_name(pat["path"])
            inner = T
            if v in ("Some", "Ok", "Err") and k == "ptstruct" and len(pat.get("pats", [])) == 1:
                inner = self.pat_test(pat["pats"][0], scrut_term + "." + v)
            if v == "Some":
                return And(Atom("some(%s)" % scrut_term), inner)
            if v == "None":
                return Not(Atom("some(%s)" % scrut_term))
            if v == "Ok":
                return And(Atom("ok(%s)" % scrut_term), inner)
            if v == "Err":
                return And(Not(Atom("ok(%s)" % scrut_term)), inner)
            # struct (irrefutable) vs enum variant
            if pat["path"] in self.prog.structs:
                return T
            return Atom("is(%s,%s)" % (scrut_term, v))
        if k == "ptuple":
            return And(*[self.pat_test(p, scrut_term + "." + str(i)) for i, p in enumerate(pat["pats"])])
        if k == "pexpr" and "lit" in pat:
            v = pat["lit"]
            val = v.get("int", v.get("bool", v.get("str")))
            return cmp_formula("==", scrut_term, str(val).lower() if isinstance(val, bool) else str(val))
        if k == "por":
            return Or(*[self.pat_test(p, scrut_term) for p in pat["pats"]])
        return Atom("pat(%s,%s)" % (scrut_term, ir.pp(pat, maxlen=60)))

    def formula(self, n, benv=None):
        k = n["k"]
        if k == "bin":
            op = n["op"]
            if op == "&&":
                return And(self.formula(n["l"], benv), self.formula(n["r"], benv))
            if op == "||":
                return Or(self.formula(n["l"], benv), self.formula(n["r"], benv))
            if op in ("==", "!=", "<", "<=", ">", ">="):
                lt = n["l"].get("ty")
                if peel_ty(lt) == "bool":
                    a, b = self.formula(n["l"], benv), self.formula(n["r"], benv)
                    eq = Or(And(a, b), And(Not(a), Not(b)))
                    return eq if op == "==" else Not(eq) if op == "!=" else Atom("e:" + self.term(n))
                tl, tr = self.term(n["l"]), self.term(n["r"])
                if peel_ty(lt) in UNSIGNED_TYS:
                    UNSIGNED_TERMS.update((tl, tr))
                    # `x >= 1` / `x < 1` on an unsigned x are `x > 0` / `x == 0`
                    if tr == "1" and op in (">=", "<"):
                        tr, op = "0", (">" if op == ">=" else "==")
                    elif tl == "1" and op in ("<=", ">"):
                        tl, op = "0", ("<" if op == "<=" else "==")
                # `x.len() > 0`, `x.len() != 0`, `x.len() >= 1`, `0 < x.len()` .. are spellings of `!x.is_empty()`
                flip = {"<": ">", "<=": ">=", ">": "<", ">=": "<=", "==": "==", "!=": "!="}
                for a, b, o in ((tl, tr, op), (tr, tl, flip[op])):
                    if a.endswith(".len()") and b in ("0", "1"):
                        e = Atom("empty(%s)" % a[:-len(".len()")])
                        if (b, o) in (("0", "=="), ("0", "<="), ("1", "<")):
                            return e
                        if (b, o) in (("0", "!="), ("0", ">"), ("1", ">=")):
                            return Not(e)
                return cmp_formula(op, tl, tr)
            return Atom("e:" + self.term(n))
        if k == "un" and n["op"] == "!":
            return Not(self.formula(n["e"], benv))
        if k == "lit" and "bool" in (n.get("v") or {}):
            return T if n["v"]["bool"] else F
        if k == "let":
            init = n["init"]
            if init["k"] in ("ctor", "ctorref", "const") and str(init.get("path", "")).endswith("::None") and not init.get("args"):
                pp_ = n["pat"]
                if pp_["k"] == "ptstruct" and pp_["path"].endswith("::Some"):
                    return F   # `if let Some(_) = None` (async_trait's type-inference stub)
            return self.pat_test(n["pat"], self.term(n["init"]))
        if k == "block" and not n.get("stmts") and "expr" in n:
            return self.formula(n["expr"], benv)
        if k in ("ref",) or (k == "un" and n["op"] == "*"):
            return self.formula(n["e"], benv)
        if k == "var":
            if benv is not None and n["id"] in benv:
                return benv[n["id"]]
            d = self.defs.get(n["id"])
            if d and d[0][0] == "expr" and not d[1] and n["id"] not in self.assigned:
                return self.formula(d[0][1], benv)
            if d and n["id"] in self.assigned:
                bv = self.boolval(n)
                if bv is not None:
                    return bv
            return Atom("b:" + self.term(n))
        if k == "mcall":
            name = n["name"]
            rt = n["recv"].get("ty", "")
            if name in ("is_some", "is_none", "is_ok", "is_err") and not n["args"]:
                t = self.term(n["recv"])
                a = Atom(("some(%s)" if name in ("is_some", "is_none") else "ok(%s)") % t)
                return a if name in ("is_some", "is_ok") else Not(a)
            if name == "is_empty" and not n["args"]:
                return Atom("empty(%s)" % self.term(n["recv"]))
            return Atom("c:" + self.term(n))
        return Atom("e:" + self.term(n))

    # ---- symbolic value of a mutable boolean local at a use site (A2 d)
    def boolval(self, use):
        vid = use["id"]
        d = self.defs.get(vid)
        if not d or d[0][0] != "expr" or d[1]:
            return None
        # find the declaring slet and its block
        decl = None
        for n in ir.walk(self.fn.body):
            if n["k"] == "slet" and n["pat"].get("k") == "pbind" and n["pat"].get("id") == vid:
                decl = n
                break
        if decl is None:
            return None
        blk = self.fn.parents().get(id(decl))
        if blk is None or blk["k"] != "block":
            return None
        stmts = blk["stmts"] + ([blk["expr"]] if "expr" in blk else [])
        start = next(i for i, s in enumerate(stmts) if s is decl)
        env = {}
        found = self._eval_seq(stmts[start:], env, use)
        return env.get(vid) if found else None

    def _contains(self, n, target):
        if n is target:
            return True
        return any(x is target for x in ir.walk(n))

    def _assigned_vars(self, n):
        out = set()
        for x in ir.walk(n):
            if x["k"] in ("assign", "assignop") and x["l"]["k"] == "var":
                out.add(x["l"]["id"])
        return out

    def _eval_seq(self, stmts, env, upto):
        """Forward symbolic evaluation of boolean locals; returns True when `upto` is reached."""
        for s in stmts:
            if self._eval_stmt(s, env, upto):
                return True
        return False

    def _eval_stmt(self, s, env, upto):
        k = s["k"]
        if k == "slet":
            if "init" in s and self._contains(s["init"], upto):
                return True
            if s["pat"]["k"] == "pbind" and peel_ty(s["pat"].get("ty")) == "bool" and "init" in s:
                env[s["pat"]["id"]] = self.formula(s["init"], env)
            return False
        if k == "assign" and s["l"]["k"] == "var":
            if self._contains(s["r"], upto):
                return True
            if s["l"]["id"] in env or peel_ty(s["l"].get("ty")) == "bool":
                env[s["l"]["id"]] = self.formula(s["r"], env)
            return False
        if k == "assignop" and s["l"]["k"] == "var" and s["op"] in ("&=", "|=", "&", "|"):
            if self._contains(s["r"], upto):
                return True
            vid = s["l"]["id"]
            cur = env.get(vid, Atom("b:local:" + s["l"]["name"]))
            rhs = self.formula(s["r"], env)
            env[vid] = And(cur, rhs) if s["op"].startswith("&") else Or(cur, rhs)
            return False
        if k == "if":
            if self._contains(s["c"], upto):
                return True
            c = self.formula(s["c"], env)
            e1 = dict(env)
            tb = s["t"]
            ts = (tb["stmts"] + ([tb["expr"]] if "expr" in tb else [])) if tb["k"] == "block" else [tb]
            if self._eval_seq(ts, e1, upto):
                env.clear()
                env.update(e1)
                return True
            e2 = dict(env)
            if "e" in s:
                eb = s["e"]
                es = (eb["stmts"] + ([eb["expr"]] if "expr" in eb else [])) if eb["k"] == "block" else [eb]
                if self._eval_seq(es, e2, upto):
                    env.clear()
                    env.update(e2)
                    return True
            t_div = diverges(s["t"])
            e_div = "e" in s and diverges(s["e"])
            for vid in set(e1) | set(e2):
                a = e1.get(vid)
                b = e2.get(vid)
                if a is None or b is None:
                    env[vid] = a if b is None else b
                    continue
                if t_div and not e_div:
                    env[vid] = b
                elif e_div and not t_div:
                    env[vid] = a
                elif a == b:
                    env[vid] = a
                else:
                    env[vid] = Or(And(c, a), And(Not(c), b))
            return False
        if k == "block":
            return self._eval_seq(s["stmts"] + ([s["expr"]] if "expr" in s else []), env, upto)
        # any other construct: conservatively forget variables assigned inside
        if self._contains(s, upto):
            for vid in self._assigned_vars(s):
                env[vid] = Atom("unk:%d@%s" % (vid, s.get("sp", "?")))
            return True
        for vid in self._assigned_vars(s):
            env[vid] = Atom("unk:%d@%s" % (vid, s.get("sp", "?")))
        return False


def canon_fn(path):
    """Drop generic parameter noise from a resolved path for display/terms."""
    out = []
    depth = 0
    for ch in path:
        if ch == "<":
            depth += 1
        elif ch == ">":
            depth -= 1
        elif depth == 0:
            out.append(ch)
    s = "".join(out).replace("::::", "::")
    return s


# ----------------------------------------------------------------------------- divergence
def diverges(n):
    """True if control never falls out of the end of n (return/break/continue/panic on all paths)."""
    if n is None:
        return False
    k = n["k"]
    if k in ("ret", "break", "continue", "panic"):
        return True
    if k == "block":
        for s in n.get("stmts", []):
            if diverges(s):
                return True
        return diverges(n["expr"]) if "expr" in n else False
    if k == "if":
        return "e" in n and diverges(n["t"]) and diverges(n["e"])
    if k == "match":
        return bool(n["arms"]) and all(diverges(a["body"]) for a in n["arms"])
    if k == "loop":
        return not any(x["k"] == "break" for x in ir.walk(n["body"], into_closures=False))
    if k in ("slet",):
        return "init" in n and diverges(n["init"])
    if k in ("call", "mcall") and n.get("ty") == "!":
        return True
    if k == "mcall":
        return diverges(n["recv"]) or any(diverges(a) for a in n["args"])
    if k == "call":
        return any(diverges(a) for a in n["args"])
    if k in ("try", "await", "ref", "cast", "un"):
        return diverges(n["e"])
    return False


# ----------------------------------------------------------------------------- unconditional sub-nodes
def uncond_subnodes(n, include_self=True):
    """Nodes evaluated whenever n is evaluated to completion (no branch/loop/closure bodies)."""
    out = []
    stack = [n]
    first = True
    while stack:
        x = stack.pop()
        if not ir.is_node(x):
            continue
        if include_self or not first:
            out.append(x)
        first = False
        k = x["k"]
        if k == "if":
            stack.append(x["c"])
        elif k == "match":
            stack.append(x["scrut"])
        elif k in ("while",):
            stack.append(x["c"])  # evaluated at least once
        elif k == "for":
            stack.append(x["iter"])
        elif k in ("loop", "closure"):
            pass
        elif k == "select":
            for b in x["branches"]:
                if b.get("fut") is not None:
                    stack.append(b["fut"])
        elif k == "bin" and x["op"] in ("&&", "||"):
            stack.append(x["l"])
        elif k == "slet":
            if "init" in x:
                stack.append(x["init"])
        else:
            stack.extend(reversed(list(ir.children(x))))
    return out


EXIT_KINDS = ("ret", "break", "continue", "try")


def _exit_nodes(n):
    return [x for x in ir.walk(n, into_closures=False) if x["k"] in EXIT_KINDS]


def sure_subnodes(n):
    """Nodes evaluated on EVERY path that enters n, whichever way the path leaves n (fall-through, `?`, return,
    break, continue).  Stricter than uncond_subnodes, which describes only the paths that complete n normally."""
    out = []

    def stmt(s):
        """append the sure nodes of statement s; return False when later statements are no longer sure"""
        if s["k"] == "block":
            for st in stmts_of(s):
                if not stmt(st):
                    return False
            return True
        exits = _exit_nodes(s)
        un = uncond_subnodes(s)
        if not exits:
            out.extend(un)
            return True
        order = {id(x): i for i, x in enumerate(ir.walk(s, into_closures=False))}
        first = min(exits, key=lambda e: order[id(e)])
        under_first = set(id(x) for x in ir.walk(first))
        for x in un:
            if x is first or id(x) in under_first:
                if x is not first:
                    out.append(x)
                continue
            if order.get(id(x), 1 << 30) > order[id(first)]:
                continue          # evaluated after the first possible exit
            if any(id(e) in set(id(y) for y in ir.walk(x)) for e in exits):
                continue          # completes only after an exit point inside it
            out.append(x)
        return False

    stmt(n)
    return out


def strip_ok_wrappers(n):
    """`x.await.map_err(f)` -> x  (for Ok-facts of `?`)."""
    while True:
        k = n["k"]
        if k in ("await", "ref"):
            n = n["e"]
            continue
        if k == "mcall" and n["name"] in OK_PASSTHROUGH:
            n = n["recv"]
            continue
        return n


def stmts_of(block):
    return block.get("stmts", []) + ([block["expr"]] if "expr" in block else [])


class Flow:
    """A2/A4 queries for one function."""

    def __init__(self, prog, fn, ctx=None):
        self.prog = prog
        self.fn = fn
        self.ctx = ctx or Ctx(prog, fn)

    # facts that hold after statement s has completed normally
    def exit_facts(self, s):
        ctx = self.ctx
        facts = []
        k = s["k"]
        if k == "if":
            t_div = diverges(s["t"])
            e_div = "e" in s and diverges(s["e"])
            c = ctx.formula(s["c"])
            if t_div and not e_div:
                facts.append(Not(c))
                if "e" in s:
                    facts.extend(self.block_facts(s["e"]))
            elif e_div and not t_div:
                facts.append(c)
                facts.extend(self.block_facts(s["t"]))
            elif not t_div and not e_div:
                tf = And(c, *self.block_facts(s["t"]))
                ef = And(Not(c), *(self.block_facts(s["e"]) if "e" in s else []))
                facts.append(Or(tf, ef))
            for x in uncond_subnodes(s["c"]):
                facts.extend(self._node_fact(x))
            return facts
        if k == "slet" and "els" in s and "init" in s:
            facts.append(ctx.pat_test(s["pat"], ctx.term(s["init"])))
        for x in uncond_subnodes(s):
            facts.extend(self._node_fact(x))
        return facts

    def block_facts(self, b):
        """Facts that hold after block/expression b completed normally."""
        if b["k"] != "block":
            return self.exit_facts(b)
        out = []
        for st in stmts_of(b):
            out.extend(self.exit_facts(st))
        return out

    def _node_fact(self, x):
        ctx = self.ctx
        k = x["k"]
        if k == "try":
            inner = strip_ok_wrappers(x["e"])
            ty = peel_ty(x["e"].get("ty", ""))
            if ty.startswith("core::option::Option"):
                return [Atom("some(%s)" % ctx.term(inner))]
            return [Atom("ok(%s)" % ctx.term(inner))]
        if k == "mcall" and x["name"] in ("unwrap", "expect"):
            ty = peel_ty(x["recv"].get("ty", ""))
            inner = strip_ok_wrappers(x["recv"])
            if ty.startswith("core::option::Option"):
                return [Atom("some(%s)" % ctx.term(inner))]
            if ty.startswith("core::result::Result"):
                return [Atom("ok(%s)" % ctx.term(inner))]
        if k == "match":
            # arms that diverge are excluded after the match
            live = [a for a in x["arms"] if not diverges(a["body"])]
            dead = [a for a in x["arms"] if diverges(a["body"])]
            st = ctx.term(x["scrut"])
            out = []
            if dead and len(live) == 1:
                out.append(ctx.pat_test(live[0]["pat"], st))
            else:
                for a in dead:
                    if "guard" not in a:
                        out.append(Not(ctx.pat_test(a["pat"], st)))
            return out
        return []

    def pathcond(self, target):
        """Conjunction of conditions that hold on every structured path reaching `target`."""
        ctx = self.ctx
        conj = []
        child = target
        for A in self.fn.ancestors(target):
            k = A["k"]
            if k == "if":
                if child is A.get("t"):
                    conj.append(ctx.formula(A["c"]))
                elif child is A.get("e"):
                    conj.append(Not(ctx.formula(A["c"])))
                if child is not A.get("c"):
                    for x in uncond_subnodes(A["c"]):
                        conj.extend(self._node_fact(x))
            elif k == "bin" and A["op"] in ("&&", "||") and child is A["r"]:
                f = ctx.formula(A["l"])
                conj.append(f if A["op"] == "&&" else Not(f))
            elif k == "match":
                st = ctx.term(A["scrut"])
                for i, a in enumerate(A["arms"]):
                    if child is a["body"] or child is a.get("guard"):
                        conj.append(ctx.pat_test(a["pat"], st))
                        if child is a["body"] and "guard" in a:
                            conj.append(ctx.formula(a["guard"]))
                        for b in A["arms"][:i]:
                            if "guard" not in b:
                                conj.append(Not(ctx.pat_test(b["pat"], st)))
                        break
                if child is not A["scrut"]:
                    for x in uncond_subnodes(A["scrut"]):
                        conj.extend(self._node_fact(x))
            elif k == "while":
                if child is A["body"]:
                    conj.append(ctx.formula(A["c"]))
            elif k == "select":
                for b in A["branches"]:
                    if child is b["body"] and b.get("pat") is not None and b.get("fut") is not None:
                        conj.append(ctx.pat_test(b["pat"], "sel(" + ctx.term(b["fut"]) + ")"))
            elif k == "block":
                ss = stmts_of(A)
                for s in ss:
                    if s is child:
                        break
                    conj.extend(self.exit_facts(s))
            elif k == "slet":
                pass
            child = A
        return And(*conj)

    def dominators(self, target):
        """Nodes evaluated on every structured path before `target` is evaluated (A4)."""
        out = self._dominators(target)
        if DOM_LOG is not None:
            DOM_LOG.append((self.prog, self.fn, target, out))
        return out

    def _dominators(self, target):
        out = []
        child = target
        # sub-expressions of the target itself are evaluated before it completes
        out.extend(uncond_subnodes(target, include_self=False))
        for A in self.fn.ancestors(target):
            k = A["k"]
            if k == "block":
                for s in stmts_of(A):
                    if s is child:
                        break
                    out.extend(uncond_subnodes(s))
            elif k == "mcall":
                if child is not A["recv"]:
                    out.extend(uncond_subnodes(A["recv"]))
                    for a in A["args"]:
                        if a is child:
                            break
                        out.extend(uncond_subnodes(a))
            elif k == "call":
                for a in A["args"]:
                    if a is child:
                        break
                    out.extend(uncond_subnodes(a))
            elif k == "if":
                if child is not A["c"]:
                    out.extend(uncond_subnodes(A["c"]))
            elif k == "match":
                if child is not A["scrut"]:
                    out.extend(uncond_subnodes(A["scrut"]))
            elif k == "bin":
                if child is A["r"]:
                    out.extend(uncond_subnodes(A["l"]))
            elif k == "for":
                if child is A["body"]:
                    out.extend(uncond_subnodes(A["iter"]))
            elif k == "while":
                if child is A["body"]:
                    out.extend(uncond_subnodes(A["c"]))
            elif k == "struct":
                for f in A["fields"]:
                    if f["e"] is child:
                        break
                    out.extend(uncond_subnodes(f["e"]))
            elif k in ("assign", "assignop"):
                if child is A["l"]:
                    out.extend(uncond_subnodes(A["r"]))
            child = A
        return out

    def preceded_by(self, target, pred):
        return [x for x in self.dominators(target) if pred(x)]

    def awaits_between(self, first, second):
        """Await points on the straight-line path between two nodes of the same block nesting (A13):
        returns the await nodes evaluated after `first` and before `second` (dominators of second that are
        not dominators of first and not inside first)."""
        d2 = self.dominators(second)
        d1 = set(id(x) for x in self.dominators(first)) | set(id(x) for x in ir.walk(first))
        return [x for x in d2 if x["k"] == "await" and id(x) not in d1]


def enclosing(fn, n, kinds):
    for a in fn.ancestors(n):
        if a["k"] in kinds:
            return a
    return None
