"""Shape of serde-derived impls, read from the expanded (type-checked) derive output in the fact base.

On this nightly, derive helper attributes (#[serde(skip)], with=, default ..) do not survive into HIR, but their EFFECT
does: the derived Serialize impl no longer writes every field in declaration order / the derived Deserialize reads fewer
elements.  `check(prog, env, ty)` returns a list of problems (empty = the derive is the plain field-by-field encoding)."""
import re

from . import ir
from .analysis import atoms_of, T
from .common import callee_paths


def _ser_fn(prog, ty):
    for p, f in prog.fns.items():
        if f.name == "serialize" and ("ser::Serialize for %s>" % ty) in p:
            return f
    return None


def _visit_seq(prog, ty):
    out = []
    for p, f in prog.fns.items():
        if f.name == "visit_seq" and ("de::Deserialize<'de> for %s>" % ty) in p:
            out.append(f)
    return out


def check(prog, env, ty):
    probs = []
    ser = _ser_fn(prog, ty)
    if ser is None or not ser.derived:
        return ["no derived Serialize impl found for %s" % ty]
    ctx = env.ctx(ser)
    flow = env.flow(ser)

    def uncond(n, allow_variant=None):
        pc = flow.pathcond(n)
        for a in atoms_of(pc):
            if a.startswith(("ok(", "some(")):
                continue
            if allow_variant is not None and a.startswith("is(self,"):
                continue
            return False
        return True

    st = prog.structs.get(ty)
    if st is not None:
        names = [f["name"] for f in st["fields"]]
        calls = [n for n in ser.nodes() if n["k"] == "call" and n.get("fn", "").endswith(("::serialize_field", "::serialize_element"))]
        nts = [n for n in ser.nodes() if n["k"] == "call" and n.get("fn", "").endswith("::serialize_newtype_struct")]
        if nts and len(names) == 1:
            got = [ctx.term(nts[0]["args"][-1])]
            calls = nts
        else:
            got = [ctx.term(n["args"][-1]) for n in calls]
        want = ["self.%s" % n for n in names]
        if got != want:
            probs.append("derived Serialize of %s writes %s, fields are %s (skip/with/flatten/reorder attribute?)" % (ty, got, want))
        for n in calls:
            if not uncond(n):
                probs.append("a field of %s is serialized conditionally (skip_serializing_if?) at %s" % (ty, n["sp"]))
        for vs in _visit_seq(prog, ty):
            c2 = env.ctx(vs)
            ne = [n for n in vs.nodes() if n["k"] == "call" and "next_element" in n.get("fn", "")]
            if len(ne) != len(names):
                probs.append("derived Deserialize of %s reads %d elements for %d fields" % (ty, len(ne), len(names)))
        if not _visit_seq(prog, ty) and len(names) > 1:
            probs.append("no derived visit_seq for %s" % ty)
        return probs
    en = prog.enums.get(ty)
    if en is not None:
        for idx, v in enumerate(en["variants"]):
            vn = v["name"]
            nf = len(v["fields"])
            heads = [n for n in ser.nodes() if n["k"] == "call" and re.search(r"::serialize_(newtype|tuple|unit|struct)_variant$", n.get("fn", ""))
                     and ctx.term(n["args"][3]) == repr(vn)]
            if len(heads) != 1:
                probs.append("variant %s::%s is serialized by %d variant calls" % (ty, vn, len(heads)))
                continue
            h = heads[0]
            if ctx.term(h["args"][2]) != str(idx):
                probs.append("variant %s::%s is written with index %s, declared at %d" % (ty, vn, ctx.term(h["args"][2]), idx))
            if h["fn"].endswith("newtype_variant"):
                got = [ctx.term(h["args"][4])]
            else:
                got = [ctx.term(n["args"][-1]) for n in ser.nodes() if n["k"] == "call" and n.get("fn", "").endswith("Variant::serialize_field")
                       and ctx.term(n["args"][-1]).startswith("self.%s." % vn)]
            want = ["self.%s.%s" % (vn, f["name"]) for f in v["fields"]]
            if got != want:
                probs.append("variant %s::%s writes %s, fields are %s" % (ty, vn, got, want))
        return probs
    return ["%s is neither a struct nor an enum of the workspace" % ty]
