"""Independent re-decision of HIR structured dominance on pre-borrowck MIR dominators (thorough tier).

Every query the rules make to Flow.dominators(target) is logged; for each logged (dominator d, target t) pair whose nodes are
resolved calls that can be located in the MIR of the same body (same source span + same resolved callee), the MIR immediate
dominator tree must also say that d's call block dominates t's call block.  A disagreement means one of the two engines is
wrong: it is reported as checker-broken (exit 2), never as a violation of /repo."""
from . import analysis
from .common import callee_paths


def _bodies(prog, fn):
    return [m for m in prog.mir.values() if m["root"] == fn.path]


def _locate(bodies, node):
    if node["k"] not in ("call", "mcall"):
        return None
    paths = set(callee_paths(node))
    hits = []
    for m in bodies:
        for b in m["blocks"]:
            if b["t"] == "call" and b.get("sp") == node.get("sp") and not b.get("cleanup"):
                if b.get("fn") in paths or b.get("inst") in paths:
                    hits.append((m, b["i"]))
    if len(hits) == 1:
        return hits[0]
    return None


def _dominates(m, a, b):
    idom = {blk["i"]: blk.get("idom", -1) for blk in m["blocks"]}
    seen = set()
    cur = b
    while cur is not None and cur >= 0 and cur not in seen:
        if cur == a:
            return True
        seen.add(cur)
        nxt = idom.get(cur, -1)
        if nxt == cur:
            break
        cur = nxt
    return False


def crosscheck(log):
    """log: list of (prog, fn, target, dominators). Returns dict with counts and disagreements."""
    agree = 0
    unjoined = 0
    pairs = 0
    bad = []
    seen = set()
    for (prog, fn, target, doms) in log:
        bodies = _bodies(prog, fn)
        if not bodies:
            continue
        tl = _locate(bodies, target)
        for d in doms:
            if d["k"] not in ("call", "mcall"):
                continue
            k = (prog.config, fn.path, d.get("sp"), target.get("sp"), tuple(callee_paths(d))[:1])
            if k in seen:
                continue
            seen.add(k)
            pairs += 1
            dl = _locate(bodies, d)
            if tl is None or dl is None or tl[0] is not dl[0]:
                unjoined += 1
                continue
            if dl[1] == tl[1] or _dominates(tl[0], dl[1], tl[1]):
                agree += 1
            else:
                bad.append({"config": prog.config, "function": fn.path, "dominator": "%s @ %s" % (callee_paths(d)[0], d.get("sp")),
                            "target": "%s @ %s" % (callee_paths(target)[0], target.get("sp")), "mir_body": tl[0]["def"],
                            "blocks": [dl[1], tl[1]]})
    return {"pairs": pairs, "agree": agree, "unjoined": unjoined, "disagreements": bad}
