"""Shared helpers for property modules: anchors, call graph, field-write summaries, iterator chains."""
from . import ir
from .analysis import Ctx, Flow, canon_fn

CORE = "consensus::core::Core"
MSG = "consensus::messages::"
BLOCK = MSG + "Block"
VOTE = MSG + "Vote"
QC = MSG + "QC"
TC = MSG + "TC"
TIMEOUT = MSG + "Timeout"
MPSC_SEND = "tokio::sync::mpsc::bounded::Sender::<T>::send"
MPSC_RECV = "tokio::sync::mpsc::bounded::Receiver::<T>::recv"


class Env:
    """Per-program caches of Ctx/Flow and call-graph summaries."""

    def __init__(self, prog):
        self.prog = prog
        self._ctx = {}
        self._flow = {}
        self._cg = None
        self._writes = None

    def ctx(self, fn):
        c = self._ctx.get(fn.path)
        if c is None:
            c = self._ctx[fn.path] = Ctx(self.prog, fn)
        return c

    def flow(self, fn):
        f = self._flow.get(fn.path)
        if f is None:
            f = self._flow[fn.path] = Flow(self.prog, fn, self.ctx(fn))
        return f

    def term(self, fn, n):
        return self.ctx(fn).term(n)

    # call graph over repository functions (resolved callees; trait calls via `inst`)
    def callgraph(self):
        if self._cg is None:
            cg = {}
            for f in self.prog.fns.values():
                outs = set()
                for n in f.nodes():
                    if n["k"] in ("call", "mcall", "fnref") and "fn" in n:
                        for p in (n.get("inst"), n["fn"]):
                            if p and p in self.prog.fns:
                                outs.add(p)
                cg[f.path] = outs
            self._cg = cg
        return self._cg

    def reach(self, roots):
        cg = self.callgraph()
        seen = set()
        stack = list(roots)
        while stack:
            p = stack.pop()
            if p in seen:
                continue
            seen.add(p)
            stack.extend(cg.get(p, ()))
        return seen

    def direct_writes(self):
        """fn path -> set of (owner struct, field) written directly (assign / op-assign / &mut / mutating method)."""
        if self._writes is None:
            w = {}
            for f in self.prog.fns.values():
                s = set()
                for n in f.nodes():
                    k = n["k"]
                    if k in ("assign", "assignop"):
                        t = n["l"]
                        while t["k"] in ("index",) or (t["k"] == "un" and t.get("op") == "*"):
                            t = t["e"]
                        # every field on the access path is (partly) written
                        while t["k"] == "field":
                            s.add((t.get("of"), t["name"]))
                            t = t["e"]
                w[f.path] = s
            self._writes = w
        return self._writes

    def trans_writes(self, fnpath):
        dw = self.direct_writes()
        out = set()
        for p in self.reach([fnpath]):
            out |= dw.get(p, set())
        return out


def callee_paths(n):
    return [p for p in (n.get("inst"), n.get("fn")) if p]


def is_call_to(n, *paths):
    return n["k"] in ("call", "mcall") and any(p in paths for p in callee_paths(n))


def call_args(n):
    """Positional arguments including the receiver as arg 0 for method calls."""
    if n["k"] == "mcall":
        return [n["recv"]] + n["args"]
    return n["args"]


def key(fn, what, ordinal=0):
    return "%s|%s|%d" % (fn.path if hasattr(fn, "path") else fn, what, ordinal)


def ordinal_keys(items, keyf):
    """Assign stable ordinals to repeated keys in traversal order."""
    seen = {}
    out = []
    for it in items:
        k = keyf(it)
        i = seen.get(k, 0)
        seen[k] = i + 1
        out.append((it, i))
    return out


def iter_chain(n):
    """Decompose an iterator method chain: returns (base_node, [(name, args, node), ...]) outermost last."""
    chain = []
    while n["k"] == "mcall" or n["k"] in ("ref", "try", "await") or (n["k"] == "un" and n.get("op") == "*"):
        if n["k"] != "mcall":
            n = n["e"]
            continue
        chain.append((n["name"], n["args"], n))
        n = n["recv"]
    chain.reverse()
    return n, chain


def push_loop_collection(fn, ctx, var):
    """A local built as `let mut v = Vec::new()/with_capacity(..); for e in BASE { v.push(ELEM) }` (nothing else touches it, the loop
    body has no early exit): the same collection as `BASE.map(|e| ELEM).collect()`.  Returns (base_term, elem_term) or None."""
    if var["k"] != "var":
        return None
    vid = var["id"]
    inits = [n["init"] for n in fn.nodes() if n["k"] in ("slet", "let") and n["pat"].get("k") == "pbind" and n["pat"].get("id") == vid and "init" in n]
    if len(inits) != 1 or inits[0]["k"] != "call" or not inits[0].get("fn", "").startswith("alloc::vec::Vec") \
            or inits[0]["fn"].rsplit("::", 1)[-1] not in ("new", "with_capacity"):
        return None
    uses = [n for n in fn.nodes() if n["k"] == "mcall" and n["recv"]["k"] in ("var", "ref") and
            (n["recv"] if n["recv"]["k"] == "var" else n["recv"]["e"]).get("id") == vid]
    muts = [n for n in uses if n["name"] not in ("len", "is_empty", "iter", "capacity")]
    assigns = [n for n in fn.nodes() if n["k"] in ("assign", "assignop") and n["l"]["k"] == "var" and n["l"]["id"] == vid]
    if len(muts) != 1 or muts[0]["name"] != "push" or assigns:
        return None
    push = muts[0]
    loops = [a for a in fn.ancestors(push) if a["k"] in ("for", "while", "loop")]
    if len(loops) != 1 or loops[0]["k"] != "for":
        return None
    lp = loops[0]
    if any(x["k"] in ("break", "continue", "ret", "try") for x in ir.walk(lp["body"], into_closures=False)):
        return None
    # the push is an unconditional statement of the loop body
    body = lp["body"]
    ss = body.get("stmts", []) + ([body["expr"]] if "expr" in body else []) if body["k"] == "block" else [body]
    if not any(s_ is push for s_ in ss):
        return None
    base, chain = iter_chain(lp["iter"])
    if any(c[0] not in ("iter", "iter_mut", "into_iter") for c in chain):
        return None
    return ctx.term(base), ctx.term(push["args"][0])


def closure_projection(ctx, clo):
    """For `|pat| expr` return the canonical term of the body relative to the parameter: e.g. `λ0.2`."""
    body = clo["body"]
    while body["k"] == "block" and not body.get("stmts") and "expr" in body:
        body = body["expr"]
    return ctx.term(body)


def find_fns_calling(prog, *callees):
    out = []
    seen = set()
    for f, n in prog.calls_to(*callees):
        if f.path not in seen:
            seen.add(f.path)
            out.append(f)
    return out


def in_module(fn, prefix):
    return fn.path.startswith(prefix) or ("<" + prefix) in fn.path or fn.path.startswith("<" + prefix)


def nodes_in_eval_order(fn):
    """Post-order-ish evaluation order index for nodes (children before call completion)."""
    order = {}
    i = 0
    for n in ir.walk(fn.body):
        order[id(n)] = i
        i += 1
    return order


CONSENSUS_MSG = "consensus::consensus::ConsensusMessage"


def core_handlers(prog):
    """Find, in Core's main loop, the handler each ConsensusMessage variant is dispatched to.
    Returns (run_fn, {variant: (handler Fn, call node)}, loopback handler (Fn, call node) or None, timer handler)."""
    out = {}
    run = None
    loopback = None
    timer = None
    for f in prog.methods_of(CORE):
        for n in f.nodes():
            if n["k"] == "match" and peel(n["scrut"].get("ty")) == CONSENSUS_MSG:
                run = f
                for arm in n["arms"]:
                    p = arm["pat"]
                    if p["k"] in ("ptstruct", "pstruct") and p["path"].startswith(CONSENSUS_MSG + "::"):
                        v = p["path"].rsplit("::", 1)[-1]
                        for x in ir.walk(arm["body"]):
                            if x["k"] in ("mcall", "call") and any(q in prog.fns for q in callee_paths(x)):
                                h = next(q for q in callee_paths(x) if q in prog.fns)
                                out[v] = (prog.fns[h], x)
                                break
    if run is not None:
        for n in run.nodes():
            if n["k"] == "select":
                for b in n["branches"]:
                    fut = b.get("fut")
                    calls = [x for x in ir.walk(b["body"]) if x["k"] in ("mcall", "call") and any(q in prog.fns for q in callee_paths(x))]
                    if fut is None or not calls:
                        continue
                    first = calls[0]
                    h = next(q for q in callee_paths(first) if q in prog.fns)
                    fty = peel(fut.get("ty"))
                    if b["body"]["k"] != "match" and "Receiver" in (ir.pp(fut) + fty) or "recv" in ir.pp(fut):
                        if b["body"]["k"] != "match":
                            loopback = (prog.fns[h], first)
                    elif b["body"]["k"] != "match":
                        timer = (prog.fns[h], first)
    return run, out, loopback, timer


def peel(t):
    from .analysis import peel_ty
    return peel_ty(t)


def msg_param_term(env, fn):
    """Canonical term of the first non-self parameter of a handler."""
    ctx = env.ctx(fn)
    for p in fn.params:
        if p["k"] == "pbind" and p["name"] not in ("self", "__self"):
            return ctx.var_term(p["id"], p["name"])
    return None


def effectful_fns(env):
    """Local functions that (transitively) have an effect: write a field, mutate a container field, send on a
    channel or the network, or write the store."""
    prog = env.prog
    prim = set()
    for f in prog.fns.values():
        if f.derived:
            continue
        for n in f.nodes():
            if is_primitive_effect(n):
                prim.add(f.path)
                break
    cg = env.callgraph()
    eff = set(prim)
    changed = True
    while changed:
        changed = False
        for p, outs in cg.items():
            if p not in eff and outs & eff:
                eff.add(p)
                changed = True
    return eff


MUTATORS = {"insert", "push", "push_back", "push_front", "pop", "pop_back", "pop_front", "remove", "retain", "clear",
            "entry", "drain", "extend", "append", "truncate", "reset", "or_insert_with", "or_insert"}
NET_SEND = ("network::simple_sender::SimpleSender::send", "network::simple_sender::SimpleSender::broadcast",
            "network::simple_sender::SimpleSender::lucky_broadcast", "network::reliable_sender::ReliableSender::send",
            "network::reliable_sender::ReliableSender::broadcast", "network::reliable_sender::ReliableSender::lucky_broadcast")


def is_primitive_effect(n):
    k = n["k"]
    if k in ("assign", "assignop"):
        t = n["l"]
        while t["k"] in ("index",) or (t["k"] == "un" and t.get("op") == "*"):
            t = t["e"]
        return t["k"] == "field"
    if k == "mcall":
        paths = callee_paths(n)
        if MPSC_SEND in paths or "store::Store::write" in paths or any(p in NET_SEND for p in paths):
            return True
        if n["name"] in MUTATORS and n["recv"]["k"] == "field" and not any(p.startswith(("consensus::", "mempool::", "network::", "store::", "crypto::")) for p in paths):
            return True
    return False


def inner_cond(flow, node, scope, drop_ok_facts=False):
    """Conjunction of the path-condition conjuncts of `node` that arise inside `scope` (an ancestor node): the part
    of its guard that is not already the guard of `scope` itself."""
    from .analysis import And, atoms_of
    outer = flow.pathcond(scope)
    oc = outer[1] if outer[0] == "and" else [outer]
    pc = flow.pathcond(node)
    ic = [c for c in (pc[1] if pc[0] == "and" else [pc]) if c not in oc]
    if drop_ok_facts:
        ic = [c for c in ic if not all(a.startswith(("ok(", "some(")) for a in atoms_of(c)) or not atoms_of(c)]
    return And(*ic)


def exit_on_channel_close(env, fn, loop, x):
    """Is the `break`/`return` x (inside `loop` of fn) taken only when a channel receive returned None, i.e. when every sender
    is gone?  `loop { match rx.recv().await { Some(v) => .., None => break } }` is the same loop as `while let Some(v) = ..`."""
    from .analysis import Atom, Not, atoms_of, implies
    ic = inner_cond(env.flow(fn), x, loop["body"])
    closed = [a for a in atoms_of(ic) if a.startswith("some(") and ".recv()" in a]
    return any(implies(ic, Not(Atom(a)))[0] for a in closed)


def fresh_timer_arms(fns):
    """select! arms inside a loop whose future is a timer CREATED IN THE ARM (`() = sleep(d) => ..`): the countdown restarts on
    every iteration of the loop, so whenever another arm keeps firing faster than `d` the timer arm never does.
    Returns [(fn, select node, branch)] for selects that have another arm which stays in the loop."""
    from .analysis import diverges
    out = []
    for f in fns:
        for n in f.nodes():
            if n["k"] != "select":
                continue
            loops = [a for a in f.ancestors(n) if a["k"] in ("loop", "while", "for")]
            if not loops:
                continue
            for b in n["branches"]:
                fut = b.get("fut")
                if fut is None:
                    continue
                made_here = [x for x in ir.walk(fut, into_closures=False) if x["k"] == "call" and
                             any(p.startswith("tokio::time::") and p.rsplit("::", 1)[-1] in ("sleep", "sleep_until", "interval", "interval_at") for p in callee_paths(x))]
                if not made_here:
                    continue
                others = [o for o in n["branches"] if o is not b and not diverges(o["body"])]
                if others:
                    out.append((f, n, b))
    return out


def receiver_fns(prog):
    """(accept-loop function, per-connection runner) of the network Receiver, found by what they do - the function that calls
    TcpListener::accept and the function that calls MessageHandler::dispatch - not by their names."""
    run = runner = None
    for f in prog.fns.values():
        if f.derived or not (f.self_ty or "").startswith("network::receiver::Receiver"):
            continue
        for n in f.nodes():
            if n["k"] in ("call", "mcall"):
                ps = callee_paths(n) + ([n.get("fn")] if n.get("fn") else [])
                if any(p and p.endswith("TcpListener::accept") for p in ps):
                    run = f
                if any(p == "network::receiver::MessageHandler::dispatch" for p in ps):
                    runner = f
    return run, runner


def waiter_fn(prog, owner):
    """The helper of `owner` that awaits Store::notify_read (named `waiter` in the repository), found by what it does."""
    cands = [f for f in prog.methods_of(owner) if not f.derived and not any(p["k"] == "pbind" and p["name"] == "self" for p in f.params)
             and any(n["k"] == "mcall" and "store::Store::notify_read" in callee_paths(n) for n in f.nodes())]
    return cands[0] if len(cands) == 1 else prog.fn(owner + "::waiter")


class AuxReport:
    """Minimal Report stand-in used to re-evaluate another property's rules and fold selected results."""

    def __init__(self):
        self.rules = []

    def ok(self, rule, key_, loc="", detail=""):
        self.rules.append({"rule": rule, "key": "%s|%s" % (rule, key_), "ok": True, "loc": loc, "detail": detail})

    def fail(self, rule, key_, loc, msg, **extra):
        self.rules.append({"rule": rule, "key": "%s|%s" % (rule, key_), "ok": False, "loc": loc, "detail": msg})

    def judge(self, cond, rule, key_, loc="", ok_detail="", fail_msg="", **extra):
        (self.ok if cond else self.fail)(rule, key_, loc, ok_detail if cond else (fail_msg or ok_detail))
        return cond

    def floor(self, rule, count, minimum, what):
        if count < minimum:
            self.fail(rule, "floor|" + what, "", "instance count %d below floor %d for %s" % (count, minimum, what))
            return False
        return True

    def sample(self, obj):
        pass

    def note(self, t):
        pass

    def stat(self, k, v):
        pass


def fold(R, P, modname, rule_ids, new_rule, floor):
    """Re-evaluate module `modname` on the programs P and report the results of `rule_ids` under `new_rule`."""
    n = 0
    for cfg, prog in P.items():
        aux = AuxReport()
        try:
            mod = __import__("hsrules.props." + modname, fromlist=["rules"])
            mod.rules({cfg: prog}, aux)
        except Exception as e:
            R.fail(new_rule, "%s rules evaluate (%s)" % (modname.upper(), cfg), "", "rules of %s crashed: %r" % (modname.upper(), e))
            continue
        for r in aux.rules:
            if r["rule"] in rule_ids:
                n += 1
                k = "%s:%s" % (r["rule"], r["key"].split("|", 1)[1])
                (R.ok if r["ok"] else R.fail)(new_rule, k, r["loc"], r["detail"])
    R.floor(new_rule, n, floor, "obligations folded from %s %s" % (modname.upper(), sorted(rule_ids)))


SYNC_TY = "consensus::synchronizer::Synchronizer"


def sync_fns(prog, env):
    """Locate by behaviour, not by name: (parent lookup, ancestor pair) functions of the consensus Synchronizer.
    parent lookup = the method that reads the store under `block.parent()`; ancestor pair = the method that calls the
    parent lookup and returns a pair of blocks."""
    parent = anc = None
    for f in prog.methods_of(SYNC_TY):
        if f.derived:
            continue
        ctx = env.ctx(f)
        for n in f.nodes():
            if n["k"] == "mcall" and "store::Store::read" in callee_paths(n) and n["args"] and ".parent()" in ctx.term(n["args"][0]):
                parent = f
    if parent is not None:
        for f in prog.methods_of(SYNC_TY):
            if f is parent or f.derived:
                continue
            calls = [n for n in f.nodes() if n["k"] in ("mcall", "call") and parent.path in callee_paths(n)]
            tups = [n for n in f.nodes() if n["k"] == "tup" and len(n["es"]) == 2 and "messages::Block" in (n.get("ty") or "")]
            if len(calls) >= 2 and tups:
                anc = f
    return parent, anc


def simple_sender_rules(prog, env, R, rid, tag):
    """SimpleSender is best effort, but a per-peer connection task that died (its loop exits on connect/write errors)
    must be replaced: otherwise every later request/reply to that peer is silently discarded.  And the `lucky` peer
    selection must shuffle before it truncates."""
    from .paths import enum_paths, TooManyPaths
    from .analysis import show
    SS = "network::simple_sender::SimpleSender"
    snd = prog.fn(SS + "::send")
    if not R.judge(snd is not None, rid, "anchor SimpleSender::send" + tag, "", "", "anchor-missing", reason="anchor-missing"):
        return
    ctx = env.ctx(snd)
    try:
        paths = enum_paths(ctx, snd.body)
    except TooManyPaths:
        paths = None
    bad = []
    n_paths = 0
    for p in (paths or []):
        if p.exit == "panic":
            continue
        n_paths += 1
        sends = [e for e in p.events if e["k"] == "mcall" and MPSC_SEND in callee_paths(e)]
        spawns = [e for e in p.events if e["k"] in ("call", "mcall") and any(q.endswith("::spawn_connection") for q in callee_paths(e))]
        if not sends:
            bad.append("[%s]: nothing is sent" % show(p.cond())[:100])
            continue
        last = sends[-1]
        ok_atoms = ("ok(%s)" % ctx.term(last), "c:%s.is_ok()" % ctx.term(last))
        succeeded = any(a in ok_atoms for a in _pos_atoms(p.cond()))
        fresh = bool(spawns) and p.events.index(spawns[-1]) < p.events.index(last)
        if not (succeeded or fresh):
            bad.append("[%s]: the message is handed to a cached connection whose task may have exited, without falling back to a "
                       "new connection" % show(p.cond())[:120])
    R.judge(paths is not None and not bad and n_paths >= 2, rid, key(snd, "a dead per-peer connection is replaced before the message is given up" + tag), snd.sp,
            "%d paths" % n_paths, "; ".join(bad)[:500] or "paths not enumerable")
    for ty in ("network::simple_sender::SimpleSender", "network::reliable_sender::ReliableSender"):
        lb = prog.fn(ty + "::lucky_broadcast")
        if lb is None:
            continue
        c2 = env.ctx(lb)
        fl = env.flow(lb)
        tr = [n for n in lb.nodes() if n["k"] == "mcall" and n["name"] in ("truncate", "split_off", "drain", "resize")]
        sh = [n for n in lb.nodes() if n["k"] == "mcall" and n["name"] in ("shuffle", "partial_shuffle", "choose_multiple")]
        ok = bool(sh) and all(any(d is s_ for d in fl.dominators(t)) for t in tr for s_ in sh[:1])
        R.judge(ok, rid, key(lb, "random peer subset: shuffle before truncate" + tag), lb.sp, "",
                "%s::lucky_broadcast truncates the address list before (or without) shuffling it: the 'random' sync peers are a fixed "
                "prefix, so an unresponsive prefix is retried forever" % ty.rsplit("::", 1)[-1])


def _pos_atoms(f):
    """Atoms that occur positively as top-level conjuncts of f."""
    if f[0] == "atom":
        return [f[1]]
    if f[0] == "and":
        out = []
        for x in f[1]:
            out += _pos_atoms(x)
        return out
    return []
