"""Helpers over the hsfacts JSON IR: traversal, pretty-printing (pseudo-Rust), lookup."""
import json

CHILD_KEYS = ("recv", "f", "args", "es", "l", "r", "e", "c", "t", "init", "els", "pat", "scrut",
              "arms", "body", "stmts", "expr", "fields", "base", "i", "iter", "params", "guard",
              "pats", "sub", "mid")


def is_node(x):
    return isinstance(x, dict) and "k" in x


def children(n):
    """Yield direct child nodes (expr/pat/stmt) of a node in source order."""
    if not isinstance(n, dict):
        return
    for key in CHILD_KEYS:
        if key not in n:
            continue
        v = n[key]
        if is_node(v):
            yield v
        elif isinstance(v, list):
            for it in v:
                if is_node(it):
                    yield it
                elif isinstance(it, dict):  # arm / field records
                    for kk in ("pat", "guard", "body", "e"):
                        if kk in it and is_node(it[kk]):
                            yield it[kk]


def walk(n, into_closures=True):
    """Pre-order walk of all nodes."""
    stack = [n]
    while stack:
        x = stack.pop()
        if not is_node(x):
            continue
        yield x
        if x["k"] == "closure" and not into_closures:
            continue
        ch = list(children(x))
        stack.extend(reversed(ch))


def pp(n, depth=0, maxlen=4000):
    s = _pp(n)
    return s if len(s) <= maxlen else s[:maxlen] + "..."


def _short(path):
    # drop generic args noise and leading crate paths for display
    return path


def _pp(n):
    if n is None:
        return ""
    if isinstance(n, list):
        return ", ".join(_pp(x) for x in n)
    if not isinstance(n, dict):
        return str(n)
    k = n.get("k")
    if k is None:
        if "pat" in n and "body" in n:
            g = (" if " + _pp(n["guard"])) if "guard" in n else ""
            return "%s%s => %s" % (_pp(n["pat"]), g, _pp(n["body"]))
        if "name" in n and "e" in n:
            return "%s: %s" % (n["name"], _pp(n["e"]))
        if "name" in n and "pat" in n:
            return "%s: %s" % (n["name"], _pp(n["pat"]))
        return json.dumps(n)[:80]
    if k == "var":
        return n["name"]
    if k == "lit":
        v = n.get("v") or {}
        if "int" in v:
            return str(v["int"])
        if "str" in v:
            return json.dumps(v["str"])
        if "bool" in v:
            return "true" if v["bool"] else "false"
        return json.dumps(v)
    if k == "field":
        return "%s.%s" % (_pp(n["e"]), n["name"])
    if k == "mcall":
        return "%s.%s(%s)" % (_pp(n["recv"]), n["name"], _pp(n["args"]))
    if k == "call":
        return "%s(%s)" % (n["fn"], _pp(n["args"]))
    if k == "callv":
        return "(%s)(%s)" % (_pp(n["f"]), _pp(n["args"]))
    if k == "ctor":
        a = n.get("args") or []
        p = n["path"].split("::")[-1] if n["path"].startswith("core::") else n["path"]
        return p + ("(%s)" % _pp(a) if a else "")
    if k in ("ctorref", "fnref"):
        return n.get("path") or n.get("fn")
    if k == "const":
        return n["path"]
    if k == "bin":
        return "(%s %s %s)" % (_pp(n["l"]), n["op"], _pp(n["r"]))
    if k == "un":
        return "%s%s" % (n["op"], _pp(n["e"]))
    if k == "ref":
        return ("&mut " if n.get("mut") else "&") + _pp(n["e"])
    if k == "cast":
        return "(%s as %s)" % (_pp(n["e"]), n.get("ty"))
    if k == "try":
        return _pp(n["e"]) + "?"
    if k == "await":
        return _pp(n["e"]) + ".await"
    if k == "assign":
        return "%s = %s" % (_pp(n["l"]), _pp(n["r"]))
    if k == "assignop":
        return "%s %s= %s" % (_pp(n["l"]), n["op"].rstrip("="), _pp(n["r"]))
    if k == "index":
        return "%s[%s]" % (_pp(n["e"]), _pp(n["i"]))
    if k == "tup":
        return "(%s)" % _pp(n["es"])
    if k == "array":
        return "[%s]" % _pp(n["es"])
    if k == "let":
        return "let %s = %s" % (_pp(n["pat"]), _pp(n["init"]))
    if k == "slet":
        s = "let %s" % _pp(n["pat"])
        if "init" in n:
            s += " = " + _pp(n["init"])
        if "els" in n:
            s += " else " + _pp(n["els"])
        return s
    if k == "if":
        s = "if %s %s" % (_pp(n["c"]), _pp(n["t"]))
        if "e" in n:
            s += " else " + _pp(n["e"])
        return s
    if k == "block":
        parts = [_pp(x) + ";" for x in n.get("stmts", [])]
        if "expr" in n:
            parts.append(_pp(n["expr"]))
        lab = ("'" + n["label"].lstrip("'") + ": ") if n.get("label") else ""
        return lab + "{ " + " ".join(parts) + " }"
    if k == "match":
        return "match %s { %s }" % (_pp(n["scrut"]), ", ".join(_pp(a) for a in n["arms"]))
    if k == "for":
        return "for %s in %s %s" % (_pp(n["pat"]), _pp(n["iter"]), _pp(n["body"]))
    if k == "while":
        return "while %s %s" % (_pp(n["c"]), _pp(n["body"]))
    if k == "loop":
        return "loop " + _pp(n["body"])
    if k == "ret":
        return "return " + _pp(n.get("e"))
    if k == "break":
        return "break " + (n.get("label", "") + " " if n.get("label") else "") + _pp(n.get("e"))
    if k == "continue":
        return "continue"
    if k == "closure":
        ck = n.get("ck")
        if ck == "async":
            return "async " + _pp(n["body"])
        return "|%s| %s" % (_pp(n.get("params", [])), _pp(n["body"]))
    if k == "struct":
        s = "%s { %s" % (n["path"], ", ".join(_pp(f) for f in n["fields"]))
        if "base" in n:
            s += ", .." + _pp(n["base"])
        return s + " }"
    if k == "pbind":
        s = ("ref " if n.get("byref") else "") + ("mut " if n.get("mut") else "") + n["name"]
        if "sub" in n:
            s += " @ " + _pp(n["sub"])
        return s
    if k == "pwild":
        return "_"
    if k == "ptstruct":
        p = n["path"].split("::")[-1] if n["path"].startswith("core::") else n["path"]
        return "%s(%s)" % (p, _pp(n["pats"]))
    if k == "pstruct":
        return "%s { %s }" % (n["path"], ", ".join(_pp(f) for f in n["fields"]))
    if k == "ptuple":
        return "(%s)" % _pp(n["pats"])
    if k in ("pref", "pderef"):
        return "&" + _pp(n["pat"])
    if k == "pexpr":
        if "lit" in n:
            return _pp({"k": "lit", "v": n["lit"]})
        p = n.get("path", "?")
        return p.split("::")[-1] if p.startswith("core::") else p
    if k == "por":
        return " | ".join(_pp(x) for x in n["pats"])
    if k == "yield":
        return "yield"
    if k == "repeat":
        return "[%s; _]" % _pp(n["e"])
    return "<%s>" % k
