"""C19 — Certificates a node assembles are valid, need a quorum, and are formed once."""
from .. import ir
from ..analysis import And, Atom, Not, Or, cmp_formula, implies, show, uncond_subnodes, atoms_of
from ..common import (CORE, MSG, QC, TC, TIMEOUT, VOTE, Env, call_args, callee_paths, core_handlers, in_module, key,
                      ordinal_keys)

LEVEL = "other"
CONFIGS = ("default", "benchmark")
AGG = "consensus::aggregator::"
EXPLANATION = (
    "Static rules on the aggregator: (G1) `used.insert(author)` must succeed before the vote is stored and its stake counted, "
    "with the stake being committee.stake(&author) of the same author; (G2) QC/TC values are constructed only in the two makers "
    "and only under weight >= quorum_threshold(), tested right after the accumulation; (G3) the success path resets the weight, "
    "`used`/`votes` are never cleared; (G4) makers are selected by (round, digest) of the vote / round of the timeout; (G5) the "
    "certificate content is the vote's hash/round and (author, signature[, high_qc.round]) tuples; (G6) digests agree with what "
    "verify() recomputes (via C20); (G7) only verified, non-stale messages reach the aggregator (via C04.S1).")


def maker_rules(env, prog, R, prefix, tag, maker, cert, msg_ty, content):
    f = prog.fn(AGG + maker + "::append")
    if not R.judge(f is not None, prefix + ".G1", "anchor %s::append%s" % (maker, tag), "", "", "anchor-missing: %s::append" % maker,
                   reason="anchor-missing"):
        return
    ctx = env.ctx(f)
    flow = env.flow(f)
    mt = "«%s»" % msg_ty.rsplit("::", 1)[-1]
    author = mt + ".author"
    # G1
    pushes = [n for n in f.nodes() if n["k"] == "mcall" and n["name"] == "push" and ctx.term(n["recv"]) == "self.votes"]
    adds = [n for n in f.nodes() if n["k"] == "assignop" and n["op"].startswith("+") and ctx.term(n["l"]) == "self.weight"]
    R.floor(prefix + ".G1", len(pushes), 1, "votes.push in %s%s" % (maker, tag))
    R.floor(prefix + ".G1", len(adds), 1, "weight += in %s%s" % (maker, tag))
    ins_atom = "c:self.used.insert(%s)" % author
    for kind, nodes in (("votes.push", pushes), ("weight +=", adds)):
        for i, n in enumerate(nodes):
            pc = flow.pathcond(n)
            ok, _ = implies(pc, Atom(ins_atom))
            if not ok:
                # the two-step spelling: `ensure!(!used.contains(&author)); used.insert(author);` before the vote is counted
                absent, _ = implies(pc, Not(Atom("c:self.used.contains(%s)" % author)))
                ins = [d for d in flow.dominators(n) if d["k"] == "mcall" and d["name"] == "insert" and ctx.term(d["recv"]) == "self.used"
                       and ctx.term(d["args"][0]) == author]
                ok = absent and bool(ins)
            R.judge(ok, prefix + ".G1", key(f, "%s only after used.insert(author) succeeded%s" % (kind, tag), i), n["sp"], ins_atom,
                    "%s happens without a successful `self.used.insert(%s)`: an authority can be counted twice (path condition %s)"
                    % (kind, author, show(pc)))
    for i, n in enumerate(adds):
        v = ctx.term(n["r"])
        R.judge(v == "«Committee».stake(%s)" % author, prefix + ".G1", key(f, "added stake is committee.stake(&author)" + tag, i), n["sp"], v,
                "the accumulated value is `%s`, not the stake of the message's author" % v)
    for i, n in enumerate(pushes):
        v = ctx.term(n["args"][0])
        R.judge(v == content(mt), prefix + ".G5", key(f, "stored tuple" + tag, i), n["sp"], v,
                "stored tuple is %s, expected %s" % (v, content(mt)))
    # G2 quorum gate on every certificate literal
    lits = [n for n in f.nodes() if n["k"] == "struct" and n.get("path") == cert]
    R.floor(prefix + ".G2", len(lits), 1, "%s literal in %s%s" % (cert.rsplit("::", 1)[-1], maker, tag))
    thr = cmp_formula(">=", "self.weight", "«Committee».quorum_threshold()")
    for i, n in enumerate(lits):
        pc = flow.pathcond(n)
        ok, _ = implies(pc, thr)
        R.judge(ok, prefix + ".G2", key(f, "certificate only at weight >= quorum_threshold()" + tag, i), n["sp"], show(thr),
                "a %s is assembled without weight >= quorum_threshold() (path condition %s)" % (cert.rsplit("::", 1)[-1], show(pc)))
        # the threshold test follows the accumulation
        doms = flow.dominators(n)
        R.judge(any(d in adds for d in doms) or any(any(x is a for x in doms) for a in adds), prefix + ".G2",
                key(f, "threshold tested after this vote was counted" + tag, i), n["sp"], "",
                "the certificate is built before the current vote's stake is added")
        fields = {x["name"]: ctx.term(x["e"]) for x in n["fields"]}
        if cert == QC:
            okc = fields.get("hash") == mt + ".hash" and fields.get("round") == mt + ".round" and fields.get("votes") == "self.votes"
        else:
            okc = fields.get("round") == mt + ".round" and fields.get("votes") == "self.votes"
        R.judge(okc, prefix + ".G5", key(f, "certificate fields" + tag, i), n["sp"], str(fields),
                "certificate fields %s do not carry the message's hash/round and the collected votes" % fields)
        # G3: weight reset dominates the literal
        resets = [d for d in doms if d["k"] == "assign" and ctx.term(d["l"]) == "self.weight" and ctx.term(d["r"]) == "0"]
        R.judge(bool(resets), prefix + ".G3", key(f, "weight reset on success (certificate made once)" + tag, i), n["sp"], "",
                "self.weight is not reset before returning the certificate: every further vote re-creates it")
    # G3: used / votes never cleared
    for fld in ("used", "votes"):
        bad = [(g, n, k) for (g, n, k) in prog.field_writes(AGG + maker, fld)
               if k in ("assign",) or (k.startswith("mcall:") and k.split(":")[1] in ("clear", "remove", "drain", "retain", "truncate", "pop", "take"))]
        R.judge(not bad, prefix + ".G3", "%s.%s is never cleared%s" % (maker, fld, tag), "", "",
                "%s.%s is cleared/overwritten at %s" % (maker, fld, [n["sp"] for (_g, n, _k) in bad]))


def rules(P, R, prefix="C19"):
    for cfg, prog in P.items():
        env = Env(prog)
        tag = "" if cfg == "default" else "@" + cfg
        maker_rules(env, prog, R, prefix, tag, "QCMaker", QC, VOTE, lambda mt: "(%s.author,%s.signature)" % (mt, mt))
        maker_rules(env, prog, R, prefix, tag, "TCMaker", TC, TIMEOUT,
                    lambda mt: "(%s.author,%s.signature,%s.high_qc.round)" % (mt, mt, mt))
        # G2: certificate literals elsewhere
        for cert in (QC, TC):
            others = [(f, n) for f, n in prog.struct_lits(cert)
                      if not in_module(f, "consensus::messages") and not f.path.startswith(AGG)]
            for (f, n), i in ordinal_keys(others, lambda x: x[0].path):
                R.fail(prefix + ".G2", key(f, "%s literal outside the makers%s" % (cert.rsplit("::", 1)[-1], tag), i), n["sp"],
                       "a %s is constructed outside the aggregator's makers, bypassing the quorum gate" % cert.rsplit("::", 1)[-1])
        # G4 maker selection
        av = prog.fn(AGG + "Aggregator::add_vote")
        at = prog.fn(AGG + "Aggregator::add_timeout")
        if R.judge(av is not None and at is not None, prefix + ".G4", "anchors add_vote/add_timeout" + tag, "", "", "anchor-missing",
                   reason="anchor-missing"):
            for f, mt, want in ((av, "«Vote»", ["«Vote».round", "«Vote».digest()"]), (at, "«Timeout»", ["«Timeout».round"])):
                ctx = env.ctx(f)
                entries = [n for n in f.nodes() if n["k"] == "mcall" and n["name"] == "entry"]
                keys_ = [ctx.term(n["args"][0]) for n in entries]
                # order of nested entry() calls: outermost map first
                keys_sorted = sorted(keys_, key=lambda k: want.index(k) if k in want else 99)
                R.judge(keys_sorted == want, prefix + ".G4", key(f, "maker selected by %s%s" % (want, tag)), f.sp, str(keys_),
                        "makers are keyed by %s instead of %s: votes for different blocks/rounds could be mixed into one certificate" % (keys_, want))
                app = [n for n in f.nodes() if n["k"] == "mcall" and n["name"] == "append"]
                oka = bool(app) and all(ctx.term(n["args"][0]) == mt and ctx.term(n["args"][1]) == "self.committee" for n in app)
                R.judge(oka, prefix + ".G4", key(f, "the same message is appended to the selected maker" + tag), f.sp, "",
                        "append is not called with the message that selected the maker")
        # G7 only Core feeds the aggregator, after verify (C04.S1 covers order); stale filter
        run, handlers, loopback, timer = core_handlers(prog)
        for variant, fnp in (("Vote", AGG + "Aggregator::add_vote"), ("Timeout", AGG + "Aggregator::add_timeout")):
            sites = prog.calls_to(fnp)
            R.floor(prefix + ".G7", len(sites), 1, "call sites of %s%s" % (fnp.rsplit("::", 1)[-1], tag))
            for (f, n), i in ordinal_keys(sites, lambda x: x[0].path):
                ctx = env.ctx(f)
                m = ctx.term(call_args(n)[1])
                pc = env.flow(f).pathcond(n)
                v, _ = implies(pc, Atom("ok(%s.verify(self.committee))" % m))
                st, _ = implies(pc, Not(cmp_formula("<", m + ".round", "self.round")))
                R.judge(v, prefix + ".G7", key(f, "%s verified before aggregation%s" % (variant, tag), i), n["sp"], "",
                        "an unverified %s reaches the aggregator (path condition %s)" % (variant, show(pc)))
                R.judge(st, prefix + ".G7", key(f, "stale %s dropped before aggregation%s" % (variant, tag), i), n["sp"], "",
                        "a %s for a past round reaches the aggregator (path condition %s)" % (variant, show(pc)))


def check(P, R, tier):
    R.explanation = EXPLANATION
    R.assumptions = ["C17: n - q < q, so a maker cannot reach the threshold twice without the reset being undone",
                     "HashSet::insert returns false for a present element"]
    rules(P, R)
    # G7 "matching VERIFIED votes (timeouts)": the verify functions themselves (C04.S2) - a timeout/vote whose signature is not
    # checked on some path can be forged into a certificate
    from ..common import fold
    fold(R, P, "c04", ("C04.S2",), "C19.G7", 20)
    # G2 "holding at least quorum stake": the threshold function itself and its >= users (C17)
    fold(R, P, "c17", ("C17.O1", "C17.O2", "C17.O3", "C17.O5", "C17.O6"), "C19.G2", 10)
    # G8 "exactly when ... have sent it": votes and timeouts of the current and of future rounds stay in their makers until
    # the quorum is reached - the aggregator is cleaned of rounds strictly BELOW the round just entered, nothing else (C09.L5)
    fold(R, P, "c09", ("C09.L5",), "C19.G8", 4)
