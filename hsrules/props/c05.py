"""C05 — A block is committed only on a certified consecutive-round 2-chain."""
from .. import ir
from ..analysis import And, Atom, Not, Or, cmp_formula, implies, show, uncond_subnodes
from ..common import (BLOCK, CORE, Env, call_args, callee_paths, core_handlers, key, msg_param_term, ordinal_keys)
from ..wiring import Wiring

LEVEL = "other"
CONFIGS = ("default", "benchmark")
SYNC = "consensus::synchronizer::Synchronizer"
EXPLANATION = (
    "Static rules: (K1) the commit channel has one sending function and that function is called only under K2; (K2) the path "
    "condition of the call implies b0.round + 1 == b1.round where the committed argument is b0 and (b0, b1) are exactly "
    "(parent(parent(block)), parent(block)) as returned by get_ancestors; (K3) every sender on Core's loop-back channel only "
    "forwards blocks that were verified (payload waiter), passed to process_block before (synchronizer) or built from the local "
    "high_qc (proposer); (K4) parent lookup uses qc.hash; (K5) last_committed_round and the commit channel have no other writer/sender.")


def plus1(t):
    l, r = sorted([t, "1"])
    return "(%s+%s)" % (l, r)


def commit_channel(W):
    """The channel whose receiver ends up in Node.commit (created in node::node::Node::new, payload Block)."""
    for cid, c in W.channels.items():
        if c.kind == "mpsc" and c.fn.path == "node::node::Node::new" and "messages::Block" in (c.elem_ty or ""):
            return cid
    return None


def loopback_channel(W, prog):
    """The Block channel consumed by Core's main loop next to the message channel."""
    for cid, c in W.channels.items():
        if c.kind != "mpsc" or "messages::Block>" not in (c.elem_ty or ""):
            continue
        for (f, n, acts) in W.consumers(cid):
            if f.self_ty == CORE:
                return cid
    return None


def rules(P, R, prefix="C05"):
    for cfg, prog in P.items():
        env = Env(prog)
        W = Wiring(prog, env)
        tag = "" if cfg == "default" else "@" + cfg
        run, handlers, loopback, timer = core_handlers(prog)

        # ---------------- K1 / K5 single outlet
        cc = commit_channel(W)
        if not R.judge(cc is not None, prefix + ".K1", "commit channel found" + tag, "", "", "anchor-missing: Block channel created in Node::new",
                       reason="anchor-missing"):
            continue
        senders = W.senders_of(cc)
        sfns = []
        for (f, n, p) in senders:
            if f not in sfns:
                sfns.append(f)
        R.floor(prefix + ".K1", len(senders), 1, "send sites on the commit channel" + tag)
        R.judge(len(sfns) == 1 and sfns[0].self_ty == CORE, prefix + ".K1", "single committing function" + tag, "",
                str([f.path for f in sfns]), "blocks are sent to the application from %s" % [f.path for f in sfns])
        lw = [(f, n, k) for (f, n, k) in prog.field_writes(CORE, "last_committed_round") if k in ("assign", "assignop", "refmut")]
        R.floor(prefix + ".K5", len(lw), 1, "writes of last_committed_round" + tag)
        for (f, n, k), i in ordinal_keys(lw, lambda x: x[0].path):
            R.judge(f in sfns, prefix + ".K5", key(f, "last_committed_round written only by the committing function" + tag, i), n["sp"], "",
                    "last_committed_round is written in %s, outside the committing function" % f.path)

        # ---------------- K2 2-chain guard at every call of the committing function
        for cf in sfns:
            calls = prog.calls_to(cf.path)
            R.floor(prefix + ".K2", len(calls), 1, "call sites of the committing function" + tag)
            for (f, n), i in ordinal_keys(calls, lambda x: x[0].path):
                ctx = env.ctx(f)
                if len(call_args(n)) < 2:
                    R.fail(prefix + ".K2", key(f, "commit(b0) only if b0.round + 1 == b1.round" + tag, i), n["sp"],
                           "%s sends on the commit channel but is not called with the block it commits: no 2-chain condition can be established for it" % cf.path)
                    continue
                arg = ctx.term(call_args(n)[1])
                pc = env.flow(f).pathcond(n)
                ok = False
                why = ""
                from ..common import sync_fns
                _gp, _ga = sync_fns(prog, env)
                ga_name = _ga.name if _ga is not None else "get_ancestors"
                if arg.endswith(".Some.0") and (".%s(" % ga_name) in arg:
                    A = arg[:-2]
                    req = cmp_formula("==", plus1(A + ".0.round"), A + ".1.round")
                    ok, cex = implies(pc, req)
                    why = "%s => %s" % (show(pc), show(req))
                    blk = arg[arg.index(".%s(" % ga_name) + len(".%s(" % ga_name):]
                    blk = blk[:blk.index(")")]
                    R.sample({"rule": prefix + ".K2", "site": n["sp"], "committed": arg, "path_condition": show(pc), "required": show(req)})
                else:
                    why = "committed value `%s` is not the first component of get_ancestors(block)" % arg
                R.judge(ok, prefix + ".K2", key(f, "commit(b0) only if b0.round + 1 == b1.round" + tag, i), n["sp"], why,
                        "commit is reachable without the consecutive-round 2-chain condition: " + why)
        # get_ancestors returns (parent(parent(block)), parent(block))
        from ..common import sync_fns
        gp_, ga = sync_fns(prog, env)
        gpn = gp_.name if gp_ is not None else "get_parent_block"
        if R.judge(ga is not None, prefix + ".K2", "anchor get_ancestors" + tag, "", "", "anchor-missing: Synchronizer::get_ancestors",
                   reason="anchor-missing"):
            ctx = env.ctx(ga)
            tups = [n for n in ga.nodes() if n["k"] == "tup" and len(n["es"]) == 2 and "messages::Block" in (n.get("ty") or "")]
            R.floor(prefix + ".K2", len(tups), 1, "ancestor pair construction" + tag)
            for i, t in enumerate(tups):
                t0, t1 = ctx.term(t["es"][0]), ctx.term(t["es"][1])
                ok = t1 == "self.%s(«Block»).Some" % gpn and t0 in ("self.%s(%s)" % (gpn, t1), "self.%s(%s).Some" % (gpn, t1))
                R.judge(ok, prefix + ".K2", key(ga, "(b0, b1) = (parent(b1), parent(block))" + tag, i), t["sp"], "(%s, %s)" % (t0, t1),
                        "get_ancestors returns (%s, %s): expected (parent(parent(block)), parent(block))" % (t0, t1))

        # ---------------- K4 parent lookup key
        gp = gp_
        par = prog.fn(BLOCK + "::parent")
        if R.judge(gp is not None and par is not None, prefix + ".K4", "anchors get_parent_block / Block::parent" + tag, "", "",
                   "anchor-missing", reason="anchor-missing"):
            ctx = env.ctx(gp)
            reads = [n for n in gp.nodes() if n["k"] == "mcall" and "store::Store::read" in callee_paths(n)]
            R.floor(prefix + ".K4", len(reads), 1, "store read in get_parent_block" + tag)
            for i, n in enumerate(reads):
                kt = ctx.term(n["args"][0])
                R.judge(kt == "«Block».parent().to_vec()", prefix + ".K4", key(gp, "parent read under block.parent()" + tag, i), n["sp"], kt,
                        "parent block is read under key `%s`, not block.parent()" % kt)
            pt = par.body.get("expr") if par.body["k"] == "block" else par.body
            ptt = env.ctx(par).term(pt) if pt is not None else None
            R.judge(ptt == "self.qc.hash", prefix + ".K4", key(par, "Block::parent() is qc.hash" + tag), par.sp, str(ptt),
                    "Block::parent returns %s, not the hash certified by the block's QC" % ptt)
            # every block the lookup can hand out is genesis (under the guard below) or the value decoded from THAT read
            outs = [n for n in gp.nodes() if n["k"] == "ctor" and n["path"].endswith("::Some") and n.get("args")
                    and "messages::Block" in (n["args"][0].get("ty") or n.get("ty") or "")]
            R.floor(prefix + ".K4", len(outs), 2, "Some(block) results of the parent lookup" + tag)
            for i, n in enumerate(outs):
                vt = ctx.term(n["args"][0])
                okv = vt == BLOCK + "::genesis()" or (vt.startswith("bincode::deserialize(self.store.read(«Block».parent().to_vec())"))
                R.judge(okv, prefix + ".K4", key(gp, "parent handed out is genesis or the block stored under block.parent()" + tag, i), n["sp"], vt[:120],
                        "the parent lookup can return `%s`: a block that is not the one certified by block.qc (identified by qc.hash)" % vt[:200])
            # genesis shortcut only when the QC is the genesis QC
            for n in gp.nodes():
                if n["k"] == "call" and n["fn"] == BLOCK + "::genesis":
                    pc = env.flow(gp).pathcond(n)
                    req = cmp_formula("==", "«Block».qc", "consensus::messages::QC::genesis()")
                    ok, _ = implies(pc, req)
                    R.judge(ok, prefix + ".K4", key(gp, "genesis parent only for the genesis QC" + tag), n["sp"], show(req),
                            "Block::genesis() is returned as parent without block.qc == QC::genesis() (path condition %s)" % show(pc))

        # ---------------- K3 who may put a block on the loop-back channel
        lb = loopback_channel(W, prog)
        if not R.judge(lb is not None, prefix + ".K3", "loop-back channel found" + tag, "", "", "anchor-missing: Block channel consumed by Core",
                       reason="anchor-missing"):
            continue
        lsend = W.senders_of(lb)
        R.floor(prefix + ".K3", len(lsend), 3, "senders on Core's loop-back channel" + tag)
        for (f, n, payload), i in ordinal_keys(lsend, lambda x: x[0].path):
            ctx = env.ctx(f)
            pt = ctx.term(payload) if payload is not None else "?"
            cls = None
            why = ""
            # (a) proposer: the payload is the result of Block::new in the same function
            if "consensus::messages::Block::new(" in pt:
                cls = "proposer"
                why = "payload is Block::new(..) built in %s" % f.name
                ok = True
            # (b) payload waiter: block comes out of the waiting futures; blocks enter only via PayloadWaiterMessage::Wait
            elif any(a.id.startswith("consensus::mempool::PayloadWaiter") for a in W.actors_executing(f, n)):
                cls = "payload-waiter"
                waits = [(g, x) for g, x in prog.ctor_sites("consensus::mempool::PayloadWaiterMessage::Wait") if x["k"] == "ctor"]
                ok = bool(waits)
                for g, x in waits:
                    gctx = env.ctx(g)
                    bt = gctx.term(x["args"][1])
                    # every caller of g hands a verified block
                    for (cf2, cn2) in prog.calls_to(g.path):
                        c2 = env.ctx(cf2)
                        at = c2.term(call_args(cn2)[1])
                        pc = env.flow(cf2).pathcond(cn2)
                        v, _ = implies(pc, Atom("ok(%s.verify(self.committee))" % at))
                        if not v:
                            ok = False
                            why = "block parked by %s at %s was not verified (path condition %s)" % (g.path, cn2["sp"], show(pc))
                if ok:
                    why = "blocks reach the payload waiter only via Wait(..) built in MempoolDriver::verify, called after block.verify"
            # (c) synchronizer: forwards blocks it was handed through get_parent_block by Core
            elif any(a.id.startswith(SYNC) for a in W.actors_executing(f, n)):
                cls = "synchronizer"
                gpb = gp_
                ok = gpb is not None
                callers = prog.calls_to(gpb.path) if gpb else []
                bad = []
                pbf_ = loopback[0] if loopback is not None else None
                allowed = set(x.path for x in (pbf_, ga, gp_) if x is not None) | set(f_.path for f_ in sfns)
                for (cf2, cn2) in callers:
                    if cf2.self_ty not in (CORE, SYNC) or cf2.path not in allowed:
                        bad.append(cf2.path)
                if bad:
                    ok = False
                    why = ("the parent lookup (which parks blocks with a missing parent for the loop-back) is called from %s: only process_block's "
                           "ancestor resolution and the commit walk may park blocks, otherwise a block re-enters process_block without having "
                           "passed the handler's checks" % bad)
                else:
                    why = "parked blocks are arguments of get_parent_block, called only from Core/Synchronizer on processed or stored blocks"
            else:
                ok = False
                why = "unrecognised sender"
            R.judge(ok, prefix + ".K3", key(f, "loop-back sender (%s) forwards only vetted blocks%s" % (cls, tag), i), n["sp"], why,
                    "a block can be injected into process_block through the loop-back channel from %s: %s" % (f.path, why))

        # direct path: process_block callers in Core
        if loopback is not None:
            pbf = loopback[0]
            for (f, n), i in ordinal_keys(prog.calls_to(pbf.path), lambda x: x[0].path):
                if f is run:
                    R.ok(prefix + ".K3", key(f, "process_block from the loop-back arm" + tag, i), n["sp"], "")
                    continue
                ctx = env.ctx(f)
                at = ctx.term(call_args(n)[1])
                pc = env.flow(f).pathcond(n)
                v, _ = implies(pc, Atom("ok(%s.verify(self.committee))" % at))
                R.judge(v, prefix + ".K3", key(f, "process_block(%s) only after verify%s" % (at, tag), i), n["sp"], "",
                        "process_block is called on an unverified block in %s (path condition %s)" % (f.path, show(pc)))


def check(P, R, tier):
    R.explanation = EXPLANATION
    R.assumptions = ["the store returns what was written under a key (C16)", "chain contiguity across commit calls rests on C01's safety argument"]
    rules(P, R)
    # "shown a VALID QC": the certificate checks themselves (C04.S2: distinct members, stake >= quorum, signatures, genesis
    # shortcut only for the exact genesis QC) are part of what makes b1 a certified child
    from ..common import fold
    fold(R, P, "c04", ("C04.S1", "C04.S2"), "C05.K6", 30)
    # ... and a QC the node assembles itself (it is never re-verified locally) must be a real one: C19.G1/G2/G4
    fold(R, P, "c19", ("C19.G1", "C19.G2", "C19.G4"), "C05.K6", 8)
    # ... and "a quorum" is N - f of the total stake for every committee: the threshold formula itself (C17)
    fold(R, P, "c17", ("C17.O1", "C17.O2", "C17.O3", "C17.O4", "C17.O5", "C17.O6"), "C05.K6", 12)
