"""C08 — Data availability: no vote or commit without the block's batches locally stored (structural clauses)."""
import re

from .. import ir
from ..analysis import And, Atom, Not, Or, T, F as F_, atoms_of, cmp_formula, implies, show, uncond_subnodes, diverges
from ..common import BLOCK, CORE, Env, peel, call_args, callee_paths, core_handlers, iter_chain, key, ordinal_keys, MPSC_SEND, MPSC_RECV
from ..wiring import Wiring
from ..paths import enum_paths, TooManyPaths
from .c02 import _Aux

LEVEL = "other"
CONFIGS = ("default", "benchmark")
MD = "consensus::mempool::MempoolDriver"
PW = "consensus::mempool::PayloadWaiter"
PWM = "consensus::mempool::PayloadWaiterMessage"
PROC = "mempool::processor::Processor"
PROPOSER = "consensus::proposer::Proposer"
EXPLANATION = (
    "Static rules: (D1) in the proposal handler process_block(block) is reached only when mempool_driver.verify(block) returned "
    "true for that same block, and the other entries of process_block are the loop-back channel only; (D2) MempoolDriver::verify "
    "loops over ALL of block.payload without early exit, records every digest whose store read misses, and returns Ok(true) only "
    "when that record is empty; (D3) otherwise it parks the block with exactly that record (Wait(missing, block)) and asks the "
    "mempool to synchronise the same digests; (D4) the payload waiter creates one notify_read per element of the record, resumes "
    "the block only from the completion of try_join_all over all of them, and loops back only such blocks; (D5) the Processor "
    "awaits store.write before announcing a digest (C11.B4), so digests a node proposes itself are readable locally; (D6) the "
    "proposer's payload is drained from a buffer fed only by the digest channel whose senders are Processors; (D7) blocks are "
    "stored (and hence can be committed as ancestors) only by process_block. Store semantics are C16's.")


def rules(P, R, prefix="C08"):
    for cfg, prog in P.items():
        env = Env(prog)
        W = Wiring(prog, env)
        tag = "" if cfg == "default" else "@" + cfg
        run, handlers, loopback, timer = core_handlers(prog)
        if not R.judge(run is not None and loopback is not None, prefix + ".D1", "anchors Core::run / process_block" + tag, "", "", "anchor-missing", reason="anchor-missing"):
            continue
        pbf = loopback[0]

        # ---------------- D1 gate
        calls = prog.calls_to(pbf.path)
        R.floor(prefix + ".D1", len(calls), 2, "call sites of process_block" + tag)
        for (f, n), i in ordinal_keys(calls, lambda x: x[0].path):
            if f is run:
                # must be the loop-back arm: argument bound by a recv on the loop-back channel
                ctx = env.ctx(f)
                at = ctx.term(call_args(n)[1])
                R.judge(at.startswith("sel(") and ".recv()" in at, prefix + ".D1", key(f, "process_block in run only for looped-back blocks" + tag, i), n["sp"], at,
                        "Core::run calls process_block on `%s`, which is not a block received from the loop-back channel" % at)
                continue
            ctx = env.ctx(f)
            flow = env.flow(f)
            bt = ctx.term(call_args(n)[1])
            vs = [x for x in f.nodes() if x["k"] == "mcall" and MD + "::verify" in callee_paths(x)]
            ok = False
            why = "no call of MempoolDriver::verify in %s" % f.path
            pc = flow.pathcond(n)
            for v in vs:
                if ctx.term(v["args"][0]) != bt:
                    why = "payload check is done on `%s`, process_block gets `%s`" % (ctx.term(v["args"][0]), bt)
                    continue
                e = v
                pm = f.parents()
                while pm.get(id(e)) is not None and pm[id(e)]["k"] in ("await", "try"):
                    e = pm[id(e)]
                req = And(ctx.formula(e), Atom("ok(%s)" % ctx.term(v)))
                ok, _ = implies(pc, req)
                why = "%s => %s" % (show(pc), show(req))
            R.judge(ok, prefix + ".D1", key(f, "process_block(%s) only if mempool_driver.verify returned true%s" % (bt, tag), i), n["sp"], why,
                    "a foreign block reaches process_block (vote/commit) without the payload availability check having returned true: " + why)
            R.sample({"rule": prefix + ".D1", "site": n["sp"], "block": bt, "obligation": why[:400]})

        # ---------------- D2 verify is exhaustive
        vf = prog.fn(MD + "::verify")
        if R.judge(vf is not None, prefix + ".D2", "anchor MempoolDriver::verify" + tag, "", "", "anchor-missing", reason="anchor-missing"):
            ctx = env.ctx(vf)
            flow = env.flow(vf)
            loops = [n for n in ir.walk(vf.body, into_closures=False) if n["k"] == "for"]
            full = [l for l in loops if ctx.term(l["iter"]) == "«Block».payload"]
            R.judge(len(full) == 1, prefix + ".D2", key(vf, "one loop over all of block.payload" + tag), vf.sp, str([ctx.term(l["iter"]) for l in loops]),
                    "verify does not iterate over the whole of block.payload (loops over %s)" % [ctx.term(l["iter"]) for l in loops])
            rec = None
            if full:
                l = full[0]
                esc = [x for x in ir.walk(l["body"], into_closures=False) if x["k"] in ("break", "ret")]
                R.judge(not esc, prefix + ".D2", key(vf, "payload loop has no early exit" + tag), l["sp"], "", "the payload loop can stop early at %s" % [e["sp"] for e in esc])
                pushes = [x for x in ir.walk(l["body"], into_closures=False) if x["k"] == "mcall" and x["name"] in ("push", "insert", "push_back") and x["recv"]["k"] == "var"]
                okp = False
                why = "no record of missing digests"
                for p in pushes:
                    pt = ctx.term(p["args"][-1])
                    pc = flow.pathcond(p)
                    outer = flow.pathcond(l)
                    oc = outer[1] if outer[0] == "and" else [outer]
                    inner = And(*[c for c in (pc[1] if pc[0] == "and" else [pc]) if c not in oc])
                    miss = Not(Atom("some(self.store.read(«Block».payload[*].to_vec()))"))
                    facts = [Atom(a) for a in atoms_of(inner) if a.startswith("ok(")]
                    fwd, _ = implies(And(miss, *facts), inner)
                    if pt == "«Block».payload[*]" and fwd:
                        okp = True
                        rec = p["recv"]
                        why = "push(%s) under %s" % (pt, show(inner))
                    else:
                        why = "records `%s` under `%s`; required: every x of block.payload with store.read(x) == None" % (pt, show(inner))
                R.judge(okp, prefix + ".D2", key(vf, "every digest whose store read misses is recorded" + tag), l["sp"], why, why)
            # every Ok(v) exit: v can be true only when the record is empty, after the full scan (v may be a literal or any
            # boolean expression, e.g. `let available = missing.is_empty(); .. Ok(available)`)
            oks = [n for n in vf.nodes() if n["k"] == "ctor" and n["path"].endswith("::Ok") and n.get("args") and peel(n["args"][0].get("ty")) == "bool"
                   and not (n.get("m") and "desugar:QuestionMark" in n["m"])]
            R.floor(prefix + ".D2", len(oks), 1, "Ok(<bool>) results of verify" + tag)
            for i, n in enumerate(oks):
                pc = flow.pathcond(n)
                val = ctx.formula(n["args"][0])
                if implies(And(pc, val), F_)[0]:
                    continue    # this exit never answers true
                okt = False
                if rec is not None:
                    okt, _ = implies(And(pc, val), Atom("empty(%s)" % ctx.term(rec)))
                doms = flow.dominators(n)
                after = bool(full) and any(d is full[0] for d in doms)
                R.judge(okt and after, prefix + ".D2", key(vf, "Ok(true) only when nothing is missing" + tag, i), n["sp"], show(And(pc, val)),
                        "verify can answer true without the record of missing digests being empty after the full scan (condition %s)" % show(And(pc, val)))
            if rec is not None:
                other = [n for n in vf.nodes() if n["k"] == "mcall" and n["recv"]["k"] == "var" and n["recv"]["id"] == rec["id"]
                         and n["name"] in ("clear", "pop", "remove", "retain", "truncate", "drain", "swap_remove", "dedup")]
                R.judge(not other, prefix + ".D2", key(vf, "record of missing digests is only appended to" + tag), vf.sp, "", "the record is also modified by %s" % [ir.pp(n)[:60] for n in other])
                # ---------------- D3 park with exactly the record
                waits = [n for n in vf.nodes() if n["k"] == "ctor" and n["path"] == PWM + "::Wait"]
                R.floor(prefix + ".D3", len(waits), 1, "Wait(missing, block) construction" + tag)
                for i, n in enumerate(waits):
                    a0, a1 = ctx.term(n["args"][0]), ctx.term(n["args"][1])
                    R.judge(a0 == ctx.term(rec) and "«Block»" in a1, prefix + ".D3", key(vf, "block parked with exactly the missing digests" + tag, i), n["sp"], "Wait(%s, %s)" % (a0, a1),
                            "the payload waiter is given Wait(%s, %s): not (record of missing digests, the block)" % (a0, a1))
                syncs = [n for n in vf.nodes() if n["k"] == "ctor" and n["path"].endswith("ConsensusMempoolMessage::Synchronize")]
                R.floor(prefix + ".D3", len(syncs), 1, "Synchronize request" + tag)
                for i, n in enumerate(syncs):
                    a0, a1 = ctx.term(n["args"][0]), ctx.term(n["args"][1])
                    R.judge(a0 == ctx.term(rec) and a1 == "«Block».author", prefix + ".D3", key(vf, "mempool asked to fetch the same digests from the author" + tag, i), n["sp"],
                            "Synchronize(%s, %s)" % (a0, a1), "Synchronize(%s, %s)" % (a0, a1))
                # whenever the record may be non-empty after the scan, the block is parked AND the batches are requested:
                # every path through verify that neither panics nor propagates an error and on which `record.is_empty()` is not
                # known sends both messages (with D2 - true only when the record is empty - this covers every false answer)
                try:
                    vpaths = enum_paths(ctx, vf.body)
                except TooManyPaths:
                    vpaths = None
                if R.judge(vpaths is not None, prefix + ".D3", key(vf, "verify paths enumerable" + tag), vf.sp, "", "too many paths (undecidable-shape)", reason="undecidable-shape"):
                    bad = []
                    nfalse = 0
                    for p_ in vpaths:
                        if p_.exit == "panic" or (p_.exit == "ret" and p_.label == "?err"):
                            continue
                        if implies(p_.cond(), Atom("empty(%s)" % ctx.term(rec)))[0]:
                            continue
                        nfalse += 1
                        kinds = set()
                        for e in p_.events:
                            if e["k"] == "mcall" and MPSC_SEND in callee_paths(e):
                                t = ctx.term(e["args"][0])
                                kinds.add("wait" if t.startswith("Wait(") else "sync" if t.startswith("Synchronize(") else "?")
                        if not ({"wait", "sync"} <= kinds):
                            bad.append("[%s] sends %s" % (show(p_.cond())[:160], sorted(kinds)))
                    R.judge(not bad and nfalse > 0, prefix + ".D3", key(vf, "false result only after parking and requesting" + tag), vf.sp, "%d paths with a possibly non-empty record" % nfalse,
                            "verify can finish with missing batches without having both parked the block and requested them: %s" % "; ".join(bad)[:400])

        # ---------------- D4 waiter waits for all
        from ..common import waiter_fn
        wf = waiter_fn(prog, PW)
        pr = prog.fn(PW + "::run")
        if R.judge(wf is not None and pr is not None, prefix + ".D4", "anchors PayloadWaiter::waiter/run" + tag, "", "", "anchor-missing", reason="anchor-missing"):
            ctx = env.ctx(wf)
            ps = [p for p in wf.params if p["k"] == "pbind"]
            p0 = ctx.var_term(ps[0]["id"], ps[0]["name"])
            p1 = ctx.var_term(ps[1]["id"], ps[1]["name"])
            tj = [n for n in wf.nodes() if n["k"] == "call" and "try_join_all" in n.get("fn", "")]
            R.judge(len(tj) == 1, prefix + ".D4", key(wf, "completion = try_join_all (all futures)" + tag), wf.sp, str([n.get("fn") for n in tj]),
                    "the waiter does not join ALL notify_read futures (found %s)" % [n.get("fn") for n in tj])
            if tj:
                src = ctx.origin_node(tj[0]["args"][0])
                base, chain = iter_chain(src)
                names = [c[0] for c in chain if c[0] not in ("iter", "iter_mut", "into_iter")]
                okc = names == ["map", "collect"] and (ctx.term(base) == p0 or "local:" + ps[0]["name"] == ctx.term(base))
                det = "%s %s" % (ctx.term(base), names)
                if okc:
                    clo = next(c for c in chain if c[0] == "map")[1][0]
                    body = clo["body"]
                    while body["k"] == "block" and not body.get("stmts") and "expr" in body:
                        body = body["expr"]
                    bt = ctx.term(body)
                    bb = ctx.term(base)
                    okc = bt == "%s[*].1.notify_read(%s[*].0.to_vec())" % (bb, bb)
                    det = bt
                if not okc:
                    from ..common import push_loop_collection
                    a0 = tj[0]["args"][0]
                    while a0["k"] == "ref":
                        a0 = a0["e"]
                    plc = push_loop_collection(wf, ctx, a0)
                    if plc is not None:
                        bb, et = plc
                        okc = bb in (p0, "local:" + ps[0]["name"]) and et == "%s[*].1.notify_read(%s[*].0.to_vec())" % (bb, bb)
                        det = "for e in %s { push(%s) }" % (bb, et)
                R.judge(okc, prefix + ".D4", key(wf, "one notify_read per missing digest, none skipped" + tag), tj[0]["sp"], det,
                        "the futures joined are `%s`: not notify_read(x) for every (x, store) of the missing list" % det)
            somes = [n for n in wf.nodes() if n["k"] == "ctor" and n["path"].endswith("::Some") and n.get("args") and ctx.term(n["args"][0]) == p1]
            R.floor(prefix + ".D4", len(somes), 1, "Some(block) results of the waiter" + tag)
            for i, n in enumerate(somes):
                clo = next((a for a in wf.ancestors(n) if a["k"] == "closure"), None)
                par = wf.parents().get(id(clo)) if clo is not None else None
                okk = par is not None and par["k"] == "mcall" and par["name"] in ("map", "and_then") and "try_join_all(" in ctx.term(par["recv"]) \
                    and ctx.term(par["recv"]).startswith("sel(")
                R.judge(okk, prefix + ".D4", key(wf, "block released only from the Ok result of the join" + tag, i), n["sp"], ctx.term(par["recv"])[:120] if par else "",
                        "Some(block) is produced outside `result_of_try_join_all.map(..)`: the block can be resumed before all batches are stored")
            # run: Wait arm feeds waiter with all missing digests and the block
            c2 = env.ctx(pr)
            wcalls = [n for n in pr.nodes() if n["k"] == "call" and wf is not None and wf.path in callee_paths(n)]
            R.floor(prefix + ".D4", len(wcalls), 1, "waiter futures created" + tag)
            for i, n in enumerate(wcalls):
                a0 = c2.origin_node(n["args"][0])
                base, chain = iter_chain(a0)
                names = [c[0] for c in chain if c[0] not in ("iter", "into_iter", "cloned", "copied")]
                bt = c2.term(base)
                ok0 = bt.endswith(".Wait.0") and names == ["map", "collect"]
                if ok0:
                    clo = next(c for c in chain if c[0] == "map")[1][0]
                    body = clo["body"]
                    while body["k"] == "block" and not body.get("stmts") and "expr" in body:
                        body = body["expr"]
                    ok0 = body["k"] == "tup" and c2.term(body["es"][0]) == bt + "[*]"
                a1 = c2.term(n["args"][1])
                R.judge(ok0 and a1 == bt[:-len(".Wait.0")] + ".Wait.1", prefix + ".D4", key(pr, "waiter(all missing digests of the message, its block)" + tag, i), n["sp"],
                        "%s %s ; %s" % (bt, names, a1), "the waiter is created over `%s %s` for block `%s`" % (bt, names, a1))
            ls = [(n, p) for (f, n, cs, p) in W.send_sites if f is pr and p is not None and "messages::Block" in (p.get("ty") or "")]
            R.floor(prefix + ".D4", len(ls), 1, "loop-back sends of the payload waiter" + tag)
            for i, (n, p) in enumerate(ls):
                pt = c2.term(p)
                R.judge(bool(re.match(r"^sel\(local:\w+\.next\(\)\)\.Some\.Ok\.Some$", pt)), prefix + ".D4", key(pr, "only blocks released by a waiter are looped back" + tag, i), n["sp"], pt,
                        "the payload waiter loops back `%s`" % pt)

        # ---------------- D5 (C11.B4): write before announce
        from . import c11
        aux = _Aux()
        try:
            c11.rules({cfg: prog}, aux)
        except Exception as e:   # fail closed
            aux.fail("C11.B4", "crash", "", "C11 rules crashed: %r" % e)
        n5 = 0
        for r in aux.rules:
            if r["rule"] == "C11.B4":
                n5 += 1
                k2 = r["key"].split("|", 1)[1]
                (R.ok if r["ok"] else R.fail)(prefix + ".D5", "C11.B4:" + k2, r["loc"], r["detail"])
        R.floor(prefix + ".D5", n5, 3, "Processor store-before-announce obligations (C11.B4)" + tag)

        # ---------------- D6 own proposals use only announced digests
        pfn = prog.fn(PROPOSER + "::run")
        mk = prog.fn(PROPOSER + "::make_block")
        if R.judge(pfn is not None and mk is not None, prefix + ".D6", "anchors Proposer::run/make_block" + tag, "", "", "anchor-missing", reason="anchor-missing"):
            c3 = env.ctx(pfn)
            ins = [n for n in pfn.nodes() if n["k"] == "mcall" and n["name"] in ("insert", "push", "extend") and c3.term(n["recv"]) == "self.buffer"]
            R.floor(prefix + ".D6", len(ins), 1, "insertions into the proposer's digest buffer" + tag)
            dig_ch = set()
            for i, n in enumerate(ins):
                at = c3.term(n["args"][0])
                m = re.match(r"^sel\((?P<r>self\.\w+)\.recv\(\)\)\.Some$", at)
                R.judge(bool(m), prefix + ".D6", key(pfn, "buffer fed only from the digest channel" + tag, i), n["sp"], at, "the proposer buffers `%s`" % at)
                if m:
                    for x in pfn.nodes():
                        if x["k"] == "mcall" and MPSC_RECV in callee_paths(x) and c3.term(x["recv"]) == m.group("r"):
                            dig_ch |= {cid for (cid, end) in W.ep(pfn, x["recv"]) if end == "rx"}
            other_ins = [(f, n) for f in prog.methods_of(PROPOSER) if f is not pfn for n in f.nodes()
                         if n["k"] == "mcall" and n["name"] in ("insert", "push", "extend") and env.ctx(f).term(n["recv"]) == "self.buffer"]
            R.judge(not other_ins, prefix + ".D6", key(pfn, "no other writer of the digest buffer" + tag), pfn.sp, "", "buffer also filled at %s" % [n["sp"] for f, n in other_ins])
            for cid in sorted(dig_ch):
                snd = W.senders_of(cid)
                bad = [f.path for (f, n, p) in snd if not f.path.startswith(PROC + "::")]
                R.judge(snd and not bad, prefix + ".D6", "digest channel %s written only by Processors%s" % (cid.rsplit("::", 1)[-1], tag), "", str(sorted(set(f.path for f, n, p in snd))),
                        "digests reach the proposer from %s (not only from Processors, which store before announcing)" % bad)
            R.floor(prefix + ".D6", len(dig_ch), 1, "digest channel into the proposer" + tag)
            c4 = env.ctx(mk)
            bn = [n for n in mk.nodes() if n["k"] == "call" and BLOCK + "::new" in callee_paths(n)]
            for i, n in enumerate(bn):
                pt = c4.term(n["args"][4]) if len(n["args"]) > 4 else "?"
                R.judge(pt in ("self.buffer.drain().collect()", "self.buffer.drain()", "self.buffer.collect()", "self.buffer"), prefix + ".D6",
                        key(mk, "own block's payload is the drained buffer" + tag, i), n["sp"], pt, "Block::new payload is `%s`" % pt)

        # ---------------- D7 blocks are stored only by process_block
        sb = [f for f in prog.methods_of(CORE) if any(x["k"] == "mcall" and "store::Store::write" in callee_paths(x) for x in f.nodes())]
        R.floor(prefix + ".D7", len(sb), 1, "block-storing function" + tag)
        for f in sb:
            for (g, n), i in ordinal_keys(prog.calls_to(f.path), lambda x: x[0].path):
                R.judge(g is pbf, prefix + ".D7", key(g, "blocks stored only by process_block" + tag, i), n["sp"], "", "%s stores blocks outside process_block" % g.path)
        dels = prog.call_sites(lambda p, i: p.startswith("rocksdb::") and ("delete" in p or "remove" in p))
        R.judge(not dels, prefix + ".D7", "no store deletion" + tag, "", "", "store entries can be deleted at %s" % [n["sp"] for f, n in dels])


def check(P, R, tier):
    R.explanation = EXPLANATION
    R.assumptions = ["store reads reflect earlier writes and notify_read completes only once the key exists (C16)",
                     "try_join_all resolves Ok only when every future resolved Ok"]
    rules(P, R)
    # D1 second half: the loop-back routes into process_block (payload waiter, synchronizer, proposer) only carry blocks that
    # already passed the handler (C05.K3: in particular the synchronizer may only be entered from process_block / commit)
    from ..common import fold
    fold(R, P, "c05", ("C05.K3",), "C08.D1", 10)
    # D8 "locally stored": the payload waiter learns that a batch arrived from Store::notify_read, so a waiter may only be woken
    # by a write that was actually put, with the value that was put, and a notify-read answers from the database (C16.T3/T4)
    fold(R, P, "c16", ("C16.T3", "C16.T4"), "C08.D8", 14)
