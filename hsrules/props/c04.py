"""C04 — Only correctly signed, quorum-backed messages influence a node.

S1 verify-before-effect in every Core message handler; S2 content of each `verify`; S3 crypto entry points;
S4 no verification result is discarded.
"""
from .. import ir
from ..analysis import And, Atom, Not, Or, cmp_formula, implies, show, peel_ty, uncond_subnodes, diverges, atoms_of
from ..analysis import F as F_
from ..common import (BLOCK, CORE, MSG, QC, TC, TIMEOUT, VOTE, Env, call_args, callee_paths, core_handlers,
                      effectful_fns, is_primitive_effect, iter_chain, key, msg_param_term, ordinal_keys)

LEVEL = "other"
CONFIGS = ("default", "benchmark")
EXPLANATION = (
    "Static rules: (S1) in every handler of Core's message loop each call with an effect (transitively writes a field, "
    "mutates the aggregator, sends on a channel or the network, writes the store) is dominated by the Ok edge of "
    "<msg>.verify(&self.committee) on the same message; (S2) every verify function reaches Ok only after membership, "
    "signature over self.digest() under self.author, distinct-signer quorum accumulation over all votes and verification of "
    "embedded certificates; (S3) the crypto wrappers hand the right digest/key/signature to ed25519-dalek; (S4) no verify "
    "result is dropped. ed25519 unforgeability itself is trusted.")

COMMITTEE_T = "«Committee»"


def find_verify_ok(env, f, node, msg_term):
    """Is `node` reached only after <msg_term>.verify(self.committee) returned Ok?"""
    flow = env.flow(f)
    pc = flow.pathcond(node)
    want = "ok(%s.verify(self.committee))" % msg_term
    ok, _ = implies(pc, Atom(want))
    return ok, pc


def s1(P, R, prefix):
    for cfg, prog in P.items():
        env = Env(prog)
        tag = "" if cfg == "default" else "@" + cfg
        run, handlers, loopback, timer = core_handlers(prog)
        R.floor(prefix + ".S1", len(handlers), 4, "message handlers dispatched from Core's loop" + tag)
        eff = effectful_fns(env)
        for variant in sorted(handlers):
            h, call = handlers[variant]
            ctx = env.ctx(h)
            mt = msg_param_term(env, h)
            judged = 0
            for n in h.nodes():
                is_eff = False
                what = None
                if n["k"] in ("call", "mcall"):
                    locs = [p for p in callee_paths(n) if p in prog.fns]
                    if any(p in eff for p in locs):
                        # verify itself and pure helpers are not effects
                        is_eff = True
                        what = ir.pp(n, maxlen=70)
                if not is_eff and is_primitive_effect(n):
                    is_eff = True
                    what = ir.pp(n, maxlen=70)
                if not is_eff:
                    continue
                # nested effect nodes inside an already judged call are skipped (judge outermost)
                if any(a["k"] in ("call", "mcall") and any(p in eff for p in callee_paths(a) if p in prog.fns)
                       for a in h.ancestors(n) if a["k"] in ("call", "mcall")):
                    continue
                ok, pc = find_verify_ok(env, h, n, mt)
                judged += 1
                R.judge(ok, prefix + ".S1", key(h, "effect after verify: %s%s" % (what, tag), 0), n["sp"],
                        "dominated by ok(%s.verify(self.committee))" % mt,
                        "`%s` in the %s handler %s is reachable before %s.verify(&self.committee) succeeded "
                        "(path condition: %s): an unauthenticated %s changes the node's state/behaviour"
                        % (what, variant, h.path, mt, show(pc), variant))
            R.floor(prefix + ".S1", judged, 1, "effect sites in handler of %s%s" % (variant, tag))
            if judged:
                R.sample({"rule": prefix + ".S1", "handler": h.path, "variant": variant, "message": mt, "effects_judged": judged})
        # the loop-back path only carries blocks that were verified or locally made: see C05.K3


def verify_fn(prog, ty):
    return prog.fn(ty + "::verify")


def tail_of(fn):
    b = fn.body
    return b.get("expr") if b["k"] == "block" else b


def ok_condition(env, fn):
    """Formula that holds whenever the verify function returns Ok(()) through its tail (all earlier exit facts),
    plus the tail node."""
    flow = env.flow(fn)
    t = tail_of(fn)
    if t is None:
        return None, None
    ctx = env.ctx(fn)

    def leaves(n):
        """value-producing leaves of a tail expression (through blocks, if/else and match arms)"""
        if n["k"] == "block":
            return leaves(n["expr"]) if "expr" in n else []
        if n["k"] == "if" and "e" in n:
            return leaves(n["t"]) + leaves(n["e"])
        if n["k"] == "match":
            return [x for a in n["arms"] for x in leaves(a["body"])]
        return [n]

    def leaf_cond(e):
        """condition under which leaf e makes the function return Ok, or None if it returns Err"""
        if ctx.term(e).startswith("Err(") or (e["k"] == "ctor" and e["path"].endswith("::Err")):
            return None
        c = flow.pathcond(e)
        ee = e
        while ee["k"] == "mcall" and ee["name"] in ("map_err",):
            ee = ee["recv"]
        # `Ok(())` adds nothing; `X.map_err(..)` / `X` returning a Result adds ok(X)
        if ee["k"] in ("call", "mcall"):
            c = And(c, Atom("ok(%s)" % ctx.term(ee)))
        return c
    lc = [leaf_cond(e) for e in leaves(t)]
    lc = [c for c in lc if c is not None]
    pc = Or(*lc) if lc else F_
    # every OTHER way of returning Ok: `return Ok(..)` / `return <result expr>` anywhere in the body
    alts = []
    for r in ir.walk(fn.body, into_closures=False):
        if r["k"] != "ret" or r.get("e") is None:
            continue
        e = r["e"]
        et = ctx.term(e)
        if et.startswith("Err(") or (e["k"] == "ctor" and e["path"].endswith("::Err")):
            continue
        for e2 in leaves(e):
            rpc = leaf_cond(e2)
            if rpc is not None:
                alts.append(rpc)
    if alts:
        pc = Or(pc, *alts)
    return pc, t


def s2(P, R, prefix):
    for cfg, prog in P.items():
        env = Env(prog)
        tag = "" if cfg == "default" else "@" + cfg
        found = 0
        gen = "consensus::messages::QC::genesis()"
        # ---- single-signer messages
        for ty, extra in ((BLOCK, "block"), (VOTE, "vote"), (TIMEOUT, "timeout")):
            f = verify_fn(prog, ty)
            if not R.judge(f is not None, prefix + ".S2", "anchor %s::verify%s" % (ty, tag), "", "",
                           "anchor-missing: %s::verify" % ty, reason="anchor-missing"):
                continue
            found += 1
            pc, t = ok_condition(env, f)
            member = cmp_formula(">", COMMITTEE_T + ".stake(self.author)", "0")
            sig = Atom("ok(self.signature.verify(self.digest(),self.author))")
            req = And(member, sig)
            if ty == BLOCK:
                req = And(req,
                          Or(cmp_formula("==", "self.qc", gen), Atom("ok(self.qc.verify(%s))" % COMMITTEE_T)),
                          Or(Not(Atom("some(self.tc)")), Atom("ok(self.tc.Some.verify(%s))" % COMMITTEE_T)))
            if ty == TIMEOUT:
                req = And(req, Or(cmp_formula("==", "self.high_qc", gen), Atom("ok(self.high_qc.verify(%s))" % COMMITTEE_T)))
            ok, cex = implies(pc, req)
            R.sample({"rule": prefix + ".S2", "fn": f.path, "ok_condition": show(pc), "required": show(req), "implied": ok})
            R.judge(ok, prefix + ".S2", key(f, "Ok only after membership+signature(+embedded certs)" + tag), f.sp,
                    "%s => %s" % (show(pc), show(req)),
                    "%s::verify can return Ok without all required checks. have: %s ; need: %s ; counterexample: %s"
                    % (ty, show(pc), show(req), {k: v for k, v in (cex or {}).items()}))
        # ---- certificates
        for ty in (QC, TC):
            f = verify_fn(prog, ty)
            if not R.judge(f is not None, prefix + ".S2", "anchor %s::verify%s" % (ty, tag), "", "",
                           "anchor-missing: %s::verify" % ty, reason="anchor-missing"):
                continue
            found += 1
            cert_rules(env, f, ty, R, prefix, tag)
        # ---- QC equality / genesis
        eq = prog.fn("<consensus::messages::QC as core::cmp::PartialEq>::eq")
        if eq is not None:
            ctx = env.ctx(eq)
            t = tail_of(eq)
            fm = ctx.formula(t) if t is not None else None
            want = And(cmp_formula("==", "self.hash", "«QC».hash"), cmp_formula("==", "self.round", "«QC».round"))
            ok = fm is not None and implies(fm, want)[0] and implies(want, fm)[0]
            R.judge(ok, prefix + ".S2", key(eq, "QC::eq compares hash and round" + tag), eq.sp, show(fm) if fm else "",
                    "QC::eq must be exactly `hash == other.hash && round == other.round` (it decides which QCs skip "
                    "verification as genesis); found %s" % (show(fm) if fm else None))
        else:
            # derived PartialEq compares all fields: stronger, acceptable
            der = [i for i in prog.impls if i["self"] == QC and i.get("trait") == "core::cmp::PartialEq"]
            R.judge(bool(der), prefix + ".S2", "QC equality exists" + tag, "", "derived PartialEq",
                    "anchor-missing: PartialEq for QC", reason="anchor-missing")
        g = prog.fn("consensus::messages::QC::genesis")
        if g is not None:
            t = tail_of(g)
            okg = t is not None and t["k"] == "call" and "default" in t["fn"].lower()
            qcs = prog.structs.get(QC)
            derived_default = any(i["self"] == QC and i.get("trait") == "core::default::Default" and i["derived"] for i in prog.impls)
            R.judge(okg and derived_default, prefix + ".S2", key(g, "genesis is the all-default QC" + tag), g.sp,
                    "QC::genesis() == QC::default() (derived)",
                    "QC::genesis must be the derived Default value (hash=0, round=0, no votes)")


def cert_rules(env, f, ty, R, prefix, tag):
    prog = env.prog
    ctx = env.ctx(f)
    flow = env.flow(f)
    short = ty.rsplit("::", 1)[-1]
    loops = [n for n in f.nodes() if n["k"] == "for" and ctx.term(n["iter"]) == "self.votes"]
    R.floor(prefix + ".S2", len(loops), 1 if ty == QC else 2, "loops over self.votes in %s::verify%s" % (short, tag))
    if not loops:
        return
    acc = loops[0]
    # (a) the loop covers all votes: no break / continue that skips accumulation
    skips = [x for x in ir.walk(acc["body"], into_closures=False) if x["k"] in ("break", "continue")]
    R.judge(not skips, prefix + ".S2", key(f, "quorum loop visits every vote" + tag), acc["sp"], "no break/continue",
            "the accumulation loop can skip votes (%s)" % [s["sp"] for s in skips])
    name_t = "self.votes[*].0"
    # (b) accumulation `weight += stake(name)` guarded by distinctness and stake>0
    adds = [x for x in ir.walk(acc["body"]) if x["k"] == "assignop" and x["op"].startswith("+")]
    R.floor(prefix + ".S2", len(adds), 1, "weight accumulation in %s::verify%s" % (short, tag))
    for i, a in enumerate(adds[:1]):
        val = ctx.term(a["r"])
        wvar = ctx.term(a["l"])
        okv = val == "%s.stake(%s)" % (COMMITTEE_T, name_t)
        R.judge(okv, prefix + ".S2", key(f, "weight += stake of the same signer" + tag, i), a["sp"], "%s += %s" % (wvar, val),
                "accumulated value `%s` is not committee.stake(name) of the vote's own signer (%s)" % (val, name_t))
        pc = flow.pathcond(a)
        used_terms = [t for t in atoms_of(pc) if t.startswith("c:") and ".contains(%s)" % name_t in t]
        ins_terms = [t for t in atoms_of(pc) if t.startswith("c:") and ".insert(%s)" % name_t in t]
        distinct = False
        how = ""
        for t in used_terms:
            if implies(pc, Not(Atom(t)))[0]:
                distinct = True
                how = "!" + t
        for t in ins_terms:
            if implies(pc, Atom(t))[0]:
                distinct = True
                how = t
        R.judge(distinct, prefix + ".S2", key(f, "distinct signer before accumulation" + tag, i), a["sp"], how,
                "stake is accumulated without first rejecting a repeated signer (path condition: %s)" % show(pc))
        positive = implies(pc, cmp_formula(">", "%s.stake(%s)" % (COMMITTEE_T, name_t), "0"))[0]
        R.judge(positive, prefix + ".S2", key(f, "member (stake>0) before accumulation" + tag, i), a["sp"], "stake(name) > 0",
                "a signer with zero stake (non-member) is not rejected (path condition: %s)" % show(pc))
        # the `used` set is updated with the same name in the loop body, unconditionally
        ins = [x for x in uncond_subnodes(acc["body"]) if x["k"] == "mcall" and x["name"] == "insert" and x["args"]
               and ctx.term(x["args"][0]) == name_t]
        R.judge(bool(ins) or bool(ins_terms), prefix + ".S2", key(f, "signer recorded as used" + tag, i), a["sp"], "used.insert(name)",
                "the signer is never recorded in the `used` set: a repeated signer passes the distinctness test")
        # (c) threshold after the loop
        t = tail_of(f)
        pct, _ = ok_condition(env, f)
        req = cmp_formula(">=", wvar, "%s.quorum_threshold()" % COMMITTEE_T)
        ok, _ = implies(pct, req)
        R.judge(ok, prefix + ".S2", key(f, "Ok only if weight >= quorum_threshold" + tag, i), f.sp, show(req),
                "%s::verify can return Ok below quorum. ok-condition: %s ; need %s" % (short, show(pct), show(req)))
    # (d) signatures
    if ty == QC:
        pct, t = ok_condition(env, f)
        want = Atom("ok(crypto::Signature::verify_batch(self.digest(),self.votes))")
        ok, _ = implies(pct, want)
        R.judge(ok, prefix + ".S2", key(f, "all signatures batch-verified over self.digest()" + tag), f.sp, show(want),
                "QC::verify does not return the result of Signature::verify_batch(&self.digest(), &self.votes). ok-condition: %s" % show(pct))
    else:
        sl = loops[1] if len(loops) > 1 else None
        if sl is not None:
            skips = [x for x in ir.walk(sl["body"], into_closures=False) if x["k"] in ("break", "continue")]
            ver = [x for x in uncond_subnodes(sl["body"]) if x["k"] == "try" and x["e"]["k"] == "mcall"
                   and "crypto::Signature::verify" in callee_paths(x["e"])]
            okl = bool(ver) and not skips
            R.judge(okl, prefix + ".S2", key(f, "every TC vote's signature is verified" + tag), sl["sp"], "signature.verify(..)? in loop body",
                    "the TC signature loop does not verify every vote unconditionally")
            for i, v in enumerate(ver[:1]):
                call = v["e"]
                a = call_args(call)
                sig_t, dig_n, auth_t = ctx.term(a[0]), a[1], ctx.term(a[2])
                okp = sig_t == "self.votes[*].1" and auth_t == "self.votes[*].0"
                R.judge(okp, prefix + ".S2", key(f, "TC signature and author come from the same vote" + tag, i), call["sp"],
                        "%s.verify(digest, %s)" % (sig_t, auth_t),
                        "signature %s is checked against author %s: they must be components 1 and 0 of the same vote" % (sig_t, auth_t))
                # digest pre-image: round ‖ high_qc_round of the same triple
                from .c20 import preimage_of_expr
                layout = preimage_of_expr(env, f, dig_n)
                want = [("self.round.to_le_bytes()", 8), ("self.votes[*].2.to_le_bytes()", 8)]
                R.judge(layout == want, prefix + ".S2", key(f, "TC vote digest = H(round ‖ high_qc_round of that vote)" + tag, i), call["sp"],
                        str(layout), "TC per-vote digest pre-image is %s, expected %s" % (layout, want))
        # after the signature loop: reaching the tail means every iteration passed


def s3(P, R, prefix):
    for cfg, prog in P.items():
        env = Env(prog)
        tag = "" if cfg == "default" else "@" + cfg
        v = prog.fn("crypto::Signature::verify")
        vb = prog.fn("crypto::Signature::verify_batch")
        if not R.judge(v is not None and vb is not None, prefix + ".S3", "anchors crypto::Signature::{verify,verify_batch}" + tag, "", "",
                       "anchor-missing", reason="anchor-missing"):
            continue
        ctx = env.ctx(v)
        t = tail_of(v)
        okv = False
        how = ir.pp(t, maxlen=120) if t else None
        if t is not None and t["k"] == "mcall" and t["name"] == "verify_strict":
            a = call_args(t)
            okv = (ctx.term(a[0]).startswith("ed25519_dalek::public::PublicKey::from_bytes(«PublicKey».0)")
                   and ctx.term(a[1]) == "«Digest».0"
                   and "self.flatten()" in ctx.term(a[2]))
            how = "%s.verify_strict(%s, %s)" % (ctx.term(a[0]), ctx.term(a[1]), ctx.term(a[2]))
        R.judge(okv, prefix + ".S3", key(v, "verify_strict(digest bytes, own signature) under the claimed key" + tag), v.sp, how,
                "Signature::verify must end in key.verify_strict(&digest.0, &sig) with key decoded from the given public key "
                "and sig from self; found %s" % how)
        # verify_batch: one triple per vote, unconditionally, all three slices passed on
        ctx = env.ctx(vb)
        loops = [n for n in vb.nodes() if n["k"] == "for"]
        R.floor(prefix + ".S3", len(loops), 1, "loop in verify_batch" + tag)
        if loops:
            lp = loops[0]
            it = ctx.term(lp["iter"])
            pushes = [x for x in uncond_subnodes(lp["body"]) if x["k"] == "mcall" and x["name"] == "push"]
            pushed = {ctx.term(x["recv"]): ctx.term(x["args"][0]) for x in pushes}
            skips = [x for x in ir.walk(lp["body"], into_closures=False) if x["k"] in ("break", "continue")]
            import re as _re
            whole = bool(_re.match(r"^«[^»]+»$", it))      # the loop runs over the votes parameter itself (no skip/take/filter)
            okb = len(pushes) == 3 and not skips and whole
            msgs = [k for k, val in pushed.items() if "«Digest».0" in val]
            sigs = [k for k, val in pushed.items() if "[*].1.flatten()" in val]
            keys_ = [k for k, val in pushed.items() if "[*].0.0" in val]
            okb = okb and len(msgs) == 1 and len(sigs) == 1 and len(keys_) == 1
            R.judge(okb, prefix + ".S3", key(vb, "one (message, signature, key) triple per vote" + tag), lp["sp"], str(pushed),
                    "verify_batch must push exactly one message (the digest), one signature (vote.1) and one key (vote.0) "
                    "per vote with no skip, over ALL votes (iterates `%s`); found %s, skips=%s" % (it, pushed, [s["sp"] for s in skips]))
            t = tail_of(vb)
            okt = False
            how = ir.pp(t, maxlen=150) if t else None
            if t is not None and t["k"] == "call" and t["fn"].endswith("verify_batch") and len(t["args"]) == 3 and okb:
                got = [ctx.term(a) for a in t["args"]]
                okt = got == ["%s[RangeFull{}]" % msgs[0], "%s[RangeFull{}]" % sigs[0], "%s[RangeFull{}]" % keys_[0]] or \
                    got == [msgs[0], sigs[0], keys_[0]]
                how = str(got)
            R.judge(okt, prefix + ".S3", key(vb, "full slices handed to dalek::verify_batch in (messages, signatures, keys) order" + tag),
                    vb.sp, how, "dalek::verify_batch is not called with the complete messages/signatures/keys vectors: %s" % how)


def s4(P, R, prefix):
    for cfg, prog in P.items():
        env = Env(prog)
        tag = "" if cfg == "default" else "@" + cfg
        targets = [t + "::verify" for t in (BLOCK, VOTE, QC, TC, TIMEOUT)] + ["crypto::Signature::verify",
                                                                             "crypto::Signature::verify_batch",
                                                                             "consensus::mempool::MempoolDriver::verify"]
        sites = prog.calls_to(*targets)
        R.floor(prefix + ".S4", len(sites), 12, "verify call sites" + tag)
        for (f, n), i in ordinal_keys(sites, lambda x: x[0].path):
            pm = f.parents()
            cur = n
            par = pm.get(id(cur))
            while par is not None and (par["k"] in ("await",) or (par["k"] == "mcall" and par["name"] in ("map_err", "map") and par["recv"] is cur)):
                cur = par
                par = pm.get(id(cur))
            consumed = False
            how = par["k"] if par else "?"
            # the value of a block / if-else / match arm is the value of that expression: climb to where it is used
            while par is not None and ((par["k"] == "block" and par.get("expr") is cur and par is not f.body and pm.get(id(par)) is not None)
                                       or (par["k"] == "match" and par["scrut"] is not cur and any(a["body"] is cur for a in par["arms"]))
                                       or (par["k"] == "if" and "e" in par and (par["t"] is cur or par["e"] is cur))):
                cur = par
                par = pm.get(id(cur))
            if par is not None:
                if par["k"] == "try":
                    consumed = True
                elif par["k"] in ("match",) and par["scrut"] is cur:
                    consumed = True
                elif par["k"] in ("let",):
                    consumed = True
                elif par["k"] == "if" and par["c"] is cur:
                    consumed = True
                elif par["k"] == "un" and par["op"] == "!":
                    consumed = True
                elif par["k"] == "ret":
                    consumed = True
                elif par["k"] == "block" and par.get("expr") is cur:
                    # tail expression of the function body => returned
                    consumed = par is f.body or pm.get(id(par)) is None
                elif par["k"] == "slet" and par["pat"]["k"] == "pbind":
                    consumed = True  # bound to a name (not `_`)
                elif par["k"] == "mcall" and par["name"] in ("is_ok", "is_err") and pm.get(id(par), {}).get("k") in ("if", "un", "bin"):
                    consumed = True
            R.judge(consumed, prefix + ".S4", key(f, "verify result consumed" + tag, i), n["sp"], how,
                    "the result of `%s` is discarded (%s): a failed verification would not stop processing" % (ir.pp(n, maxlen=80), how))


def rules(P, R, prefix="C04"):
    s1(P, R, prefix)
    s2(P, R, prefix)
    s3(P, R, prefix)
    s4(P, R, prefix)


def check(P, R, tier):
    R.explanation = EXPLANATION
    R.assumptions = ["ed25519-dalek verify_strict / verify_batch are sound", "SHA-512 collision resistance"]
    rules(P, R)
    # "every certificate carries ... stake [that] reaches the quorum": the threshold itself (C17) and the aggregator's
    # distinct-before-count accounting (C19.G1/G2: a rejected duplicate must not change what is assembled later)
    from ..common import fold
    fold(R, P, "c17", ("C17.O1", "C17.O2", "C17.O3", "C17.O4", "C17.O5", "C17.O6"), "C04.S5", 12)
    fold(R, P, "c19", ("C19.G1", "C19.G2", "C19.G4"), "C04.S5", 8)
    # "altering any signed field, moving a signature to another message, round, block or message type ... makes the
    # message be rejected": only if the signed digest of each message type covers every field that gives it meaning and
    # the digests of different types cannot coincide (C20.H1, the digest-coverage and layout rule)
    fold(R, P, "c20", ("C20.H1",), "C04.S6", 40)
