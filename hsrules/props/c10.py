"""C10 — Pacemaker: rounds monotone, evidence-based, timeouts carry the highest QC."""
from .. import ir
from ..analysis import And, Atom, Not, Or, cmp_formula, implies, show, uncond_subnodes, sure_subnodes, atoms_of
from ..common import (BLOCK, CORE, QC, TC, TIMEOUT, Env, call_args, callee_paths, core_handlers, key, msg_param_term,
                      ordinal_keys)
from .c03 import monotone_write

LEVEL = "other"
CONFIGS = ("default", "benchmark")
EXPLANATION = (
    "Static rules: (P1) Core.round has a single writer whose write is monotone under its guard; (P2) every round passed to the "
    "advancing function is the .round of a certificate that was verified (Ok edge of the carrying message's verify) or assembled "
    "locally by the aggregator; (P3) Core.high_qc has a single guarded writer (running maximum) reached from process_qc on every "
    "path; (P4) a proposal's QC and an assembled QC pass process_qc before the block is processed / a proposal is requested; "
    "(P5) Timeout::new is called with (self.high_qc, self.round); (P6) timer.reset wiring. Timing itself is not decided.")


def verified_or_assembled(env, f, node, term):
    """The certificate whose round `term` names was verified (Ok of owner.verify) or assembled by the aggregator."""
    ctx = env.ctx(f)
    pc = env.flow(f).pathcond(node)
    # assembled: the term is (a projection of) add_vote/add_timeout's Some payload
    if ".add_vote(" in term or ".add_timeout(" in term:
        return True, "assembled by the aggregator (%s)" % term
    # verified: some prefix of the term is a message whose verify() Ok edge dominates
    parts = term.split(".")
    for i in range(len(parts), 0, -1):
        owner = ".".join(parts[:i])
        if implies(pc, Atom("ok(%s.verify(self.committee))" % owner))[0]:
            return True, "ok(%s.verify(self.committee))" % owner
    return False, "path condition: %s" % show(pc)


def rules(P, R, prefix="C10"):
    for cfg, prog in P.items():
        env = Env(prog)
        tag = "" if cfg == "default" else "@" + cfg
        run, handlers, loopback, timer = core_handlers(prog)

        # ---------------- P1 round is monotone, single writer
        writes = prog.field_writes(CORE, "round")
        writes = [(f, n, k) for (f, n, k) in writes if k in ("assign", "assignop", "refmut")]
        R.floor(prefix + ".P1", len(writes), 1, "writes of Core.round" + tag)
        wf = []
        for (f, n, k), i in ordinal_keys(writes, lambda x: x[0].path):
            ok, why = monotone_write(env, f, n, k, "round")
            R.judge(ok, prefix + ".P1", key(f, "write of Core.round is monotone" + tag, i), n["sp"], why,
                    "the round can decrease: " + why)
            # "it enters round r+1 only after holding a QC or TC for round r": the new round is exactly evidence round + 1
            ctx = env.ctx(f)
            vt = ctx.term(n["r"]) if k == "assign" else ir.pp(n)
            ps = [p for p in f.params if p["k"] == "pbind" and p["name"] != "self"]
            ev = ctx.var_term(ps[0]["id"], ps[0]["name"]) if ps else "?"
            want = "(%s+%s)" % tuple(sorted(["1", ev]))
            R.judge(k == "assign" and vt == want, prefix + ".P1", key(f, "new round = evidence round + 1" + tag, i), n["sp"], vt,
                    "the round is set to `%s`, not to (round of the certificate) + 1: the node would enter a round without holding a "
                    "certificate of the round before it" % vt)
            if f not in wf:
                wf.append(f)
        R.judge(len(wf) == 1, prefix + ".P1", "single writer of Core.round" + tag, "", str([f.path for f in wf]),
                "Core.round is written by %s" % [f.path for f in wf])

        # ---------------- P2 evidence for every advance
        adv_sites = []
        for a in wf:
            adv_sites += prog.calls_to(a.path)
        R.floor(prefix + ".P2", len(adv_sites), 4, "call sites of the round-advancing function" + tag)
        pq_fns = []
        for (f, n), i in ordinal_keys(adv_sites, lambda x: x[0].path):
            ctx = env.ctx(f)
            arg = call_args(n)[1]
            t = ctx.term(arg)
            if not t.endswith(".round"):
                R.fail(prefix + ".P2", key(f, "advance argument is a certificate's round" + tag, i), n["sp"],
                       "the round argument `%s` is not the .round of a QC/TC" % t)
                continue
            owner = t[:-len(".round")]
            oty = None
            on = arg
            while on["k"] in ("ref", "un"):
                on = on["e"]
            if on["k"] == "field":
                oty = on.get("of")
            R.judge(oty in (QC, TC), prefix + ".P2", key(f, "advance argument is a certificate's round" + tag, i), n["sp"],
                    "%s : %s" % (t, oty), "round argument `%s` belongs to %s, not to a QC or TC" % (t, oty))
            if owner in ("«QC»", "«TC»") and f not in [h[0] for h in handlers.values()]:
                # parameter of a forwarding helper (process_qc): judge its call sites instead
                if f not in pq_fns:
                    pq_fns.append(f)
                R.ok(prefix + ".P2", key(f, "forwarding helper: evidence judged at its call sites" + tag, i), n["sp"], owner)
                continue
            ok, why = verified_or_assembled(env, f, n, owner)
            R.judge(ok, prefix + ".P2", key(f, "certificate verified or assembled before advancing" + tag, i), n["sp"], why,
                    "advance on `%s` without evidence: the certificate was neither verified nor assembled locally. %s" % (t, why))
        for g in pq_fns:
            sites = prog.calls_to(g.path)
            R.floor(prefix + ".P2", len(sites), 3, "call sites of %s%s" % (g.name, tag))
            for (f, n), i in ordinal_keys(sites, lambda x: x[0].path):
                ctx = env.ctx(f)
                t = ctx.term(call_args(n)[1])
                ok, why = verified_or_assembled(env, f, n, t)
                R.judge(ok, prefix + ".P2", key(f, "%s(%s): certificate verified or assembled%s" % (g.name, t, tag), i), n["sp"], why,
                        "%s is called with `%s` which was neither verified nor assembled locally. %s" % (g.name, t, why))

        # ---------------- P3 high_qc is a running maximum
        hw = [(f, n, k) for (f, n, k) in prog.field_writes(CORE, "high_qc") if k in ("assign", "assignop", "refmut")]
        R.floor(prefix + ".P3", len(hw), 1, "writes of Core.high_qc" + tag)
        hwf = []
        for (f, n, k), i in ordinal_keys(hw, lambda x: x[0].path):
            ctx = env.ctx(f)
            pc = env.flow(f).pathcond(n)
            rt = ctx.term(n["r"]) if k == "assign" else "?"
            req = cmp_formula(">", rt + ".round", "self.high_qc.round")
            ok, _ = implies(pc, req)
            R.judge(ok, prefix + ".P3", key(f, "high_qc only replaced by a strictly higher QC" + tag, i), n["sp"], show(req),
                    "self.high_qc = %s is not guarded by %s.round > self.high_qc.round (path condition %s)" % (rt, rt, show(pc)))
            if f not in hwf:
                hwf.append(f)
        for g in pq_fns:
            ctx = env.ctx(g)
            unc = sure_subnodes(g.body)
            ok = any(x["k"] in ("call", "mcall") and any(p in [h.path for h in hwf] for p in callee_paths(x))
                     and ctx.term(call_args(x)[1]) == "«QC»" for x in unc)
            R.judge(ok, prefix + ".P3", key(g, "every processed QC is folded into high_qc" + tag), g.sp, "",
                    "%s does not unconditionally pass its QC to the high_qc update" % g.path)
            ok2 = any(x["k"] in ("call", "mcall") and any(p in [w.path for w in wf] for p in callee_paths(x))
                      and ctx.term(call_args(x)[1]) == "«QC».round" for x in unc)
            R.judge(ok2, prefix + ".P2", key(g, "every processed QC may advance the round" + tag), g.sp, "",
                    "%s does not unconditionally call the round advance with qc.round" % g.path)

        # ---------------- P4 QC first
        if "Propose" in handlers and pq_fns:
            h, _ = handlers["Propose"]
            flow = env.flow(h)
            ctx = env.ctx(h)
            mt = msg_param_term(env, h)
            pb = [n for n in h.nodes() if n["k"] in ("call", "mcall") and loopback is not None and loopback[0].path in callee_paths(n)]
            R.floor(prefix + ".P4", len(pb), 1, "process_block call in the Propose handler" + tag)
            for i, n in enumerate(pb):
                pre = [d for d in flow.dominators(n) if d["k"] in ("call", "mcall") and any(p in [g.path for g in pq_fns] for p in callee_paths(d))
                       and ctx.term(call_args(d)[1]) == mt + ".qc"]
                R.judge(bool(pre), prefix + ".P4", key(h, "process_qc(&block.qc) before process_block" + tag, i), n["sp"], "",
                        "a proposal is processed before its QC went through process_qc: the node may vote for a block whose QC is "
                        "higher than its high_qc")
        if "Vote" in handlers and pq_fns:
            h, _ = handlers["Vote"]
            flow = env.flow(h)
            ctx = env.ctx(h)
            gp = [n for n in h.nodes() if n["k"] in ("call", "mcall") and any(
                p in prog.fns and any(x["k"] == "ctor" and x["path"].endswith("ProposerMessage::Make") for x in prog.fns[p].nodes())
                for p in callee_paths(n))]
            for i, n in enumerate(gp):
                pre = [d for d in flow.dominators(n) if d["k"] in ("call", "mcall") and any(p in [g.path for g in pq_fns] for p in callee_paths(d))
                       and ".add_vote(" in ctx.term(call_args(d)[1])]
                R.judge(bool(pre), prefix + ".P4", key(h, "assembled QC passes process_qc before proposing" + tag, i), n["sp"], "",
                        "an assembled QC is proposed on without first being folded into high_qc")

        # a proposal may also continue later through the payload-wait loop-back, which skips the handler: everything the
        # handler does with the block's certificates must therefore happen BEFORE the call that can park the block
        if "Propose" in handlers and pq_fns:
            h, _ = handlers["Propose"]
            flow = env.flow(h)
            ctx = env.ctx(h)
            mt = msg_param_term(env, h)
            parks = [n for n in h.nodes() if n["k"] == "mcall" and "consensus::mempool::MempoolDriver::verify" in callee_paths(n)]
            R.floor(prefix + ".P4", len(parks), 1, "payload check (parking point) in the Propose handler" + tag)
            for i, n in enumerate(parks):
                doms = flow.dominators(n)
                pre_qc = [d for d in doms if d["k"] in ("call", "mcall") and any(p in [g.path for g in pq_fns] for p in callee_paths(d))
                          and ctx.term(call_args(d)[1]) == mt + ".qc"]
                R.judge(bool(pre_qc), prefix + ".P4", key(h, "process_qc(&block.qc) before the block can be parked for its payload" + tag, i), n["sp"], "",
                        "the block can be parked (and later resumed through the loop-back, which skips this handler) before its QC went through "
                        "process_qc: the node may vote for it without having recorded its QC / advanced past qc.round")
                tcadv = [x for x in h.nodes() if x["k"] in ("call", "mcall") and any(p in [w.path for w in wf] for p in callee_paths(x))
                         and ctx.term(call_args(x)[1]).startswith(mt + ".tc")]
                if tcadv:
                    # the `if let Some(tc) = block.tc { advance }` statement as a whole precedes the parking point
                    # (whatever its spelling - `if let`, `match`, `if .. is_some()` -: the statement of the block shared with the
                    # parking call that contains the advance comes before the statement that contains the parking call)
                    pm = h.parents()
                    n_anc = [n] + list(h.ancestors(n))
                    okt = False
                    x = tcadv[0]
                    while x is not None:
                        par = pm.get(id(x))
                        if par is not None and par["k"] == "block" and any(par is a for a in n_anc):
                            ss = par.get("stmts", []) + ([par["expr"]] if "expr" in par else [])
                            ia = next((k for k, s_ in enumerate(ss) if s_ is x), None)
                            ib = next((k for k, s_ in enumerate(ss) if any(s_ is a for a in n_anc)), None)
                            okt = ia is not None and ib is not None and ia < ib
                            break
                        x = par
                    R.judge(okt, prefix + ".P4", key(h, "TC round advance before the block can be parked" + tag, i), n["sp"], "",
                            "the block's TC is used to advance the round only after the parking point")

        # ---------------- P5 timeout content
        ts = prog.calls_to(TIMEOUT + "::new")
        R.floor(prefix + ".P5", len(ts), 1, "Timeout::new call sites" + tag)
        for (f, n), i in ordinal_keys(ts, lambda x: x[0].path):
            ctx = env.ctx(f)
            a = [ctx.term(x) for x in n["args"]]
            ok = len(a) >= 2 and a[0] == "self.high_qc" and a[1] == "self.round"
            R.judge(ok, prefix + ".P5", key(f, "Timeout::new(self.high_qc, self.round, ..)" + tag, i), n["sp"], str(a[:2]),
                    "the timeout carries (%s, %s) instead of (self.high_qc, self.round): it would not report the highest QC the "
                    "node has voted on / sent" % (a[0] if a else None, a[1] if len(a) > 1 else None))

        # ---------------- P6 timer wiring
        for f in wf + [x[0] for x in [timer] if x]:
            has = any(n["k"] == "mcall" and "consensus::timer::Timer::reset" in callee_paths(n) for n in sure_subnodes(f.body)) or \
                any(n["k"] == "mcall" and "consensus::timer::Timer::reset" in callee_paths(n) for n in f.nodes())
            R.judge(has, prefix + ".P6", key(f, "timer.reset()" + tag), f.sp, "", "%s does not reset the round timer" % f.path)


def check(P, R, tier):
    R.explanation = EXPLANATION
    R.assumptions = ["verify functions are correct (C04.S2)", "timing of the timer is out of scope"]
    rules(P, R)
    # "a QC or TC ... assembled from received votes/timeouts": what the aggregator hands to advance_round must be a real
    # certificate (distinct authors, stake >= quorum): C19.G1/G2 and the >= comparison with the threshold (C17.O6)
    from ..common import fold
    fold(R, P, "c19", ("C19.G1", "C19.G2", "C19.G4"), "C10.P7", 8)
    # (C04.S1: no vote or timeout reaches an aggregator, and no certificate reaches advance_round, before it verified)
    fold(R, P, "c04", ("C04.S1", "C04.S2"), "C10.P7", 30)
    fold(R, P, "c17", ("C17.O1", "C17.O6"), "C10.P7", 8)
