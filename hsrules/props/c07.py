"""C07 — A lagging node fetches missing blocks (structural clauses; convergence itself is not decided)."""
from .. import ir
from ..analysis import And, Atom, Not, Or, cmp_formula, implies, show, uncond_subnodes, sure_subnodes, diverges
from ..common import (BLOCK, CORE, CONSENSUS_MSG, Env, call_args, callee_paths, core_handlers, key, ordinal_keys)
from ..wiring import Wiring, MPSC_RECV
from ..analysis import T as T_

LEVEL = "other"
CONFIGS = ("default", "benchmark")
SYNC = "consensus::synchronizer::Synchronizer"
HELPER = "consensus::helper::Helper"
SIMPLE_SEND = "network::simple_sender::SimpleSender::send"
SIMPLE_BCAST = "network::simple_sender::SimpleSender::broadcast"
EXPLANATION = (
    "Static rules for the clauses the statement spells out: (Y1) the helper reads the store under exactly the requested digest and "
    "replies Propose(decoded value) to committee.address(origin) and nothing else; (Y2) a block whose parent is missing is parked: "
    "notify_read(parent) registered, SyncRequest(parent, name) sent to the block author's address, and the parked block is looped "
    "back when the parent arrives (never dropped); (Y3) the retry arm re-broadcasts SyncRequest for overdue requests and re-arms the "
    "timer on every path; (Y4) store_block happens only after get_ancestors returned Some and only Core::store_block writes block "
    "keys; (Y5) SyncRequest is routed to the helper and Propose replies go through the full proposal handler; (Y6) helper totality "
    "(shared with C15). Convergence/liveness is not decided.")


def _cmp_terms(f):
    """(a, b) of a canonical lt(a,b)/eq(a,b) formula built by cmp_formula."""
    from ..analysis import atoms_of
    a = atoms_of(f)[0]
    inner = a[a.index("(") + 1:-1]
    depth = 0
    for i, ch in enumerate(inner):
        if ch in "([{":
            depth += 1
        elif ch in ")]}":
            depth -= 1
        elif ch == "," and depth == 0:
            return inner[:i], inner[i + 1:]
    return inner, inner


def rules(P, R, prefix="C07"):
    for cfg, prog in P.items():
        env = Env(prog)
        W = Wiring(prog, env)
        tag = "" if cfg == "default" else "@" + cfg

        # ---------------- Y1 helper answers with exactly the stored block
        hr = prog.fn(HELPER + "::run")
        if R.judge(hr is not None, prefix + ".Y1", "anchor consensus Helper::run" + tag, "", "", "anchor-missing", reason="anchor-missing"):
            ctx = env.ctx(hr)
            reads = [n for n in hr.nodes() if n["k"] == "mcall" and "store::Store::read" in callee_paths(n)]
            sends = [n for n in hr.nodes() if n["k"] == "mcall" and any(p.startswith("network::") and ("send" in p or "broadcast" in p) for p in callee_paths(n))]
            R.floor(prefix + ".Y1", len(reads), 1, "store read in the helper" + tag)
            R.floor(prefix + ".Y1", len(sends), 1, "network send in the helper" + tag)
            req = None
            for n in hr.nodes():
                if n["k"] == "while" and n["c"]["k"] == "let":
                    req = ctx.term(n["c"]["init"]) + ".Some"
            for i, n in enumerate(reads):
                kt = ctx.term(n["args"][0])
                R.judge(req is not None and kt == req + ".0.to_vec()", prefix + ".Y1", key(hr, "reads the store under the requested digest" + tag, i),
                        n["sp"], kt, "helper reads key `%s`, not the requested digest" % kt)
            R.judge(len(sends) == 1, prefix + ".Y1", key(hr, "exactly one reply per request" + tag), hr.sp, str(len(sends)),
                    "helper has %d network sends" % len(sends))
            # Y6 (structural half): the helper's receive loop is left only when its channel closes
            wl0 = next((n for n in hr.nodes() if n["k"] in ("while", "loop")), None)
            if wl0 is not None:
                from ..common import exit_on_channel_close
                exits = [x for x in ir.walk(wl0["body"], into_closures=False) if x["k"] in ("break", "ret") and not exit_on_channel_close(env, hr, wl0, x)]
                R.judge(not exits, prefix + ".Y6", key(hr, "helper loop has no exit" + tag), wl0["sp"], "",
                        "the sync helper leaves its request loop at %s: after that no block request is ever answered" % [x["sp"] for x in exits])
            # the reply is sent for EVERY stored block that decodes: no extra condition (size caps, allow-lists ..)
            wl = next((n for n in hr.nodes() if n["k"] == "while"), None)
            if sends and reads and wl is not None:
                from ..common import inner_cond
                from ..analysis import atoms_of as _atoms
                ic = inner_cond(env.flow(hr), sends[0], wl["body"])
                G = ctx.term(reads[0])
                allowed = ("some(%s" % G[:20], "ok(")
                extra = [a for a in _atoms(ic) if not a.startswith(("ok(", "some("))]
                R.judge(not extra, prefix + ".Y1", key(hr, "every stored block that is requested is sent" + tag), sends[0]["sp"], show(ic),
                        "the helper replies only under `%s`: some stored blocks are never served to a lagging peer" % show(ic))
            for i, n in enumerate(sends):
                addr = ctx.term(n["args"][0])
                data = ctx.term(n["args"][1])
                ok_addr = req is not None and addr == "self.committee.address(%s.1).Some" % req
                R.judge(ok_addr and SIMPLE_SEND in callee_paths(n), prefix + ".Y1", key(hr, "reply goes to the requester's address" + tag, i), n["sp"], addr,
                        "reply is sent to `%s`, not to committee.address(origin)" % addr)
                ok_data = req is not None and ("Propose(bincode::deserialize(self.store.read(%s.0.to_vec())" % req).replace(".Some", "") in data.replace(".Some", "")
                R.judge(ok_data, prefix + ".Y1", key(hr, "reply is Propose(block decoded from that read)" + tag, i), n["sp"], data[:160],
                        "reply payload `%s` is not ConsensusMessage::Propose of the value read under the requested digest" % data[:200])

        # ---------------- Y2 request + park + resume
        from ..common import sync_fns
        gp, _ga07 = sync_fns(prog, env)
        inner = None
        for cid, c in W.channels.items():
            if c.fn.path == SYNC + "::new" and c.kind == "mpsc" and "messages::Block" in (c.elem_ty or ""):
                inner = cid
        if R.judge(gp is not None and inner is not None, prefix + ".Y2", "anchors get_parent_block / inner channel" + tag, "", "",
                   "anchor-missing", reason="anchor-missing"):
            ctx = env.ctx(gp)
            snd = [(f, n, p) for (f, n, p) in W.senders_of(inner)]
            R.floor(prefix + ".Y2", len(snd), 1, "sends on the synchronizer's inner channel" + tag)
            for (f, n, p), i in ordinal_keys(snd, lambda x: x[0].path):
                c2 = env.ctx(f)
                pc = env.flow(f).pathcond(n)
                miss = Not(Atom("some(self.store.read(«Block».parent().to_vec()))"))
                okm, _ = implies(pc, miss)
                R.judge(okm and c2.term(p) == "«Block»", prefix + ".Y2", key(f, "block with a missing parent is handed to the synchronizer" + tag, i),
                        n["sp"], "%s under %s" % (c2.term(p), show(pc)),
                        "the inner-channel send is not `block` under the parent-missing branch (payload %s, path condition %s)" % (c2.term(p), show(pc)))
            sn = prog.fn(SYNC + "::new")
            ctx = env.ctx(sn)
            sel = [n for n in sn.nodes() if n["k"] == "select"]
            R.floor(prefix + ".Y2", len(sel), 1, "select loop of the synchronizer task" + tag)
            if sel:
                s0 = sel[0]
                recv_b = None
                wait_b = None
                timer_b = None
                for b in s0["branches"]:
                    ft = ir.pp(b["fut"], maxlen=200) if b.get("fut") else ""
                    if any(x["k"] == "mcall" and MPSC_RECV in callee_paths(x) for x in ir.walk(b["fut"])):
                        recv_b = b
                    elif ".next()" in ft:
                        wait_b = b
                    else:
                        timer_b = b
                if R.judge(recv_b is not None and wait_b is not None and timer_b is not None, prefix + ".Y2", "synchronizer arms (request, resume, retry)" + tag,
                           s0["sp"], "", "undecidable-shape: synchronizer select does not have the request/resume/retry arms", reason="undecidable-shape"):
                    blk = "sel(%s).Some" % ctx.term(recv_b["fut"])
                    body = recv_b["body"]
                    from ..common import waiter_fn
                    _wfn = waiter_fn(prog, SYNC)
                    waiters = [n for n in ir.walk(body) if n["k"] == "call" and _wfn is not None and n["fn"] == _wfn.path]
                    okw = False
                    for n in waiters:
                        a = [ctx.term(x) for x in n["args"]]
                        okw = len(a) == 3 and a[1] == blk + ".parent()" and a[2] == blk
                    pushes = [n for n in ir.walk(body) if n["k"] == "mcall" and n["name"] == "push" and any(w is n["args"][0] or ctx.origin_node(n["args"][0]) is w for w in waiters)]
                    R.judge(okw and bool(pushes), prefix + ".Y2", key(sn, "parked: waiter(store, parent(block), block) pushed to the waiting set" + tag),
                            body["sp"], "", "the synchronizer does not register a waiter on block.parent() that delivers the same block")
                    reqs = [n for n in ir.walk(body) if n["k"] == "ctor" and n["path"] == CONSENSUS_MSG + "::SyncRequest"]
                    okr = any([ctx.term(x) for x in n["args"]] == [blk + ".parent()", "«PublicKey»"] for n in reqs)
                    R.judge(okr, prefix + ".Y2", key(sn, "SyncRequest(parent, own name)" + tag), body["sp"], "",
                            "no SyncRequest(block.parent(), name) is built for a newly parked block")
                    sends = [n for n in ir.walk(body) if n["k"] == "mcall" and SIMPLE_SEND in callee_paths(n)]
                    oka = any(ctx.term(n["args"][0]) == "«Committee».address(%s.author)" % blk for n in sends)
                    R.judge(oka, prefix + ".Y2", key(sn, "request goes to the block author's address" + tag), body["sp"], "",
                            "the sync request is not sent to committee.address(block.author)")
                    # waiter: notify_read(wait_on) then Ok(deliver)
                    wf = _wfn
                    if wf is not None:
                        wc = env.ctx(wf)
                        nr = [n for n in wf.nodes() if n["k"] == "mcall" and "store::Store::notify_read" in callee_paths(n)]
                        t = wf.body.get("expr")
                        okt = bool(nr) and wc.term(nr[0]["args"][0]) == "«Digest».to_vec()" and t is not None and wc.term(t) == "Ok(«Block»)"
                        R.judge(okt, prefix + ".Y2", key(wf, "waiter = notify_read(wait_on) then deliver" + tag), wf.sp, "",
                                "Synchronizer::waiter does not await notify_read(wait_on) and then return the parked block")
                    # resume: Ok(block) => tx_loopback.send(block) on every path of the arm
                    rb = wait_b["body"]
                    lsend = [n for n in ir.walk(rb) if n["k"] == "mcall" and any(q == "tokio::sync::mpsc::bounded::Sender::<T>::send" for q in callee_paths(n))]
                    okl = False
                    for n in lsend:
                        pt = ctx.term(n["args"][0])
                        okl = okl or pt.endswith(".Ok") and "sel(" in pt
                    from ..panics import must_use
                    okarm = False
                    if rb["k"] == "match":
                        for arm in rb["arms"]:
                            if arm["pat"]["k"] == "ptstruct" and arm["pat"]["path"].endswith("::Ok"):
                                vid = next((p["id"] for p in ir.walk(arm["pat"]) if p["k"] == "pbind"), None)
                                sends_in = [n for n in sure_subnodes(arm["body"]) if n in lsend or any(n is x for x in lsend)]
                                okarm = bool(sends_in)
                    R.judge(okl and okarm, prefix + ".Y2", key(sn, "resumed block is looped back to Core on every path" + tag), rb["sp"], "",
                            "a parked block whose parent arrived is not unconditionally sent on the loop-back channel (it would be dropped)")
                    # ---------------- Y3 retry
                    tb = timer_b["body"]
                    bc = [n for n in ir.walk(tb) if n["k"] == "mcall" and SIMPLE_BCAST in callee_paths(n)]
                    rq = [n for n in ir.walk(tb) if n["k"] == "ctor" and n["path"] == CONSENSUS_MSG + "::SyncRequest"]
                    fl = [n for n in ir.walk(tb) if n["k"] == "for"]
                    okf = bool(fl) and ctx.term(fl[0]["iter"]) == "local:requests"
                    okq = any([ctx.term(x) for x in n["args"]] == ["local:requests[*].0", "«PublicKey»"] for n in rq)
                    okb = any("«Committee».broadcast_addresses(«PublicKey»)" in ctx.term(n["args"][0]) for n in bc)
                    R.judge(okf and okq and okb, prefix + ".Y3", key(sn, "retry: SyncRequest(digest, name) broadcast for pending requests" + tag), tb["sp"], "",
                            "the retry arm does not broadcast SyncRequest(digest, name) to broadcast_addresses(name) for the pending requests")
                    if fl:
                        # the broadcast must be reached for EVERY entry that is overdue and only for those:
                        # its condition inside the loop is exactly `timestamp + sync_retry_delay < now` (or <=)
                        flow = env.flow(sn)
                        overdue = None
                        for c in [n for n in ir.walk(fl[0]["body"]) if n["k"] == "if"]:
                            cc = c["c"]
                            if cc["k"] == "bin" and cc["op"] in ("<", "<=", ">", ">="):
                                lo, hi = (cc["l"], cc["r"]) if cc["op"] in ("<", "<=") else (cc["r"], cc["l"])
                                lt_ = ctx.term(lo)
                                if "local:requests[*].1" in lt_ and "«u64»" in lt_ and "+" in lt_ and "local:requests" not in ctx.term(hi):
                                    overdue = cmp_formula("<", lt_, ctx.term(hi))
                        okc = overdue is not None
                        why = "no test `timestamp + sync_retry_delay < now` in the retry loop"
                        if okc:
                            for b in bc:
                                outer = flow.pathcond(fl[0])
                                oc = outer[1] if outer[0] == "and" else [outer]
                                pcb = flow.pathcond(b)
                                ic = [c for c in (pcb[1] if pcb[0] == "and" else [pcb]) if c not in oc]
                                inner = And(*ic)
                                from ..analysis import atoms_of
                                facts = [Atom(a) for a in atoms_of(inner) if a.startswith(("ok(", "some("))]
                                fwd, _ = implies(And(overdue, *facts), inner)
                                bwd, _ = implies(inner, Or(overdue, cmp_formula("==", *_cmp_terms(overdue))))
                                if not (fwd and bwd):
                                    okc = False
                                    why = ("the retry broadcast is reached under `%s`, which is not equivalent to the overdue test `%s`: some overdue "
                                           "requests are never retried (or fresh ones are)" % (show(inner), show(overdue)))
                        R.judge(okc, prefix + ".Y3", key(sn, "retry for every request older than sync_retry_delay, and only those" + tag), fl[0]["sp"],
                                show(overdue) if overdue is not None else "", why)
                    resets = [n for n in sure_subnodes(tb) if n["k"] == "mcall" and n["name"] == "reset"]
                    R.judge(bool(resets), prefix + ".Y3", key(sn, "retry timer re-armed on every path" + tag), tb["sp"], "",
                            "the retry arm does not unconditionally re-arm its timer: after one expiry no further retries happen")

        from ..common import fresh_timer_arms
        fta = fresh_timer_arms([f for f in prog.fns.values() if f.self_ty == SYNC and not f.derived])
        for (f_, n_, b_), i in ordinal_keys(fta, lambda x: x[0].path):
            R.fail(prefix + ".Y3", key(f_, "retry timer is created outside the loop" + tag, i), n_["sp"],
                   "the retry timer is created in the select! arm itself (`%s`): every block parked or resumed meanwhile restarts it, so an unanswered "
                   "request is never retried while proposals keep arriving" % ir.pp(b_["fut"], maxlen=80))
        R.ok(prefix + ".Y3", "no per-iteration retry timer" + tag + " (%d found)" % len(fta), "", "")
        # ---------------- Y4 store-after-ancestors
        run, handlers, loopback, timer = core_handlers(prog)
        writers = [(f, n) for f, n in prog.calls_to("store::Store::write") if f.path.startswith("consensus::")]
        R.floor(prefix + ".Y4", len(writers), 1, "store writes in consensus" + tag)
        wfns = []
        for (f, n), i in ordinal_keys(writers, lambda x: x[0].path):
            R.judge(f.self_ty == CORE, prefix + ".Y4", key(f, "block-keyed store entries written only by Core" + tag, i), n["sp"], "",
                    "consensus store write outside Core: %s" % f.path)
            if f not in wfns:
                wfns.append(f)
        for wf in wfns:
            for (f, n), i in ordinal_keys(prog.calls_to(wf.path), lambda x: x[0].path):
                ctx = env.ctx(f)
                bt = ctx.term(call_args(n)[1])
                pc = env.flow(f).pathcond(n)
                req = Atom("some(self.synchronizer.%s(%s))" % (_ga07.name if _ga07 is not None else "get_ancestors", bt))
                ok, _ = implies(pc, req)
                R.judge(ok, prefix + ".Y4", key(f, "store_block only after get_ancestors(block) returned Some" + tag, i), n["sp"], show(req),
                        "a block is stored (becomes servable / usable as parent) before its ancestors were found (path condition %s)" % show(pc))
                # ... and EVERY block whose ancestors are known is stored, whatever its round: blocks parked on it (its children,
                # received while it was waiting for its payload or its own parent) only resume when it is written
                from ..analysis import atoms_of as _at
                extra = [a for a in _at(pc) if not a.startswith(("ok(", "some("))]
                R.judge(not extra, prefix + ".Y4", key(f, "every block with known ancestors is stored" + tag, i), n["sp"], show(pc),
                        "store_block is reached only under the additional condition(s) %s: a block failing them is never stored, so the blocks "
                        "parked on it never resume and peers cannot fetch it" % extra)
        dels = prog.call_sites(lambda p, i: p.startswith("rocksdb::") and ("delete" in p or "remove" in p))
        R.judge(not dels, prefix + ".Y4", "no store deletion" + tag, "", "", "store entries can be deleted at %s" % [n["sp"] for _f, n in dels])

        # ---------------- Y5 dispatch
        dsp = prog.fn("<consensus::consensus::ConsensusReceiverHandler as network::receiver::MessageHandler>::dispatch")
        if R.judge(dsp is not None, prefix + ".Y5", "anchor consensus dispatch" + tag, "", "", "anchor-missing", reason="anchor-missing"):
            ctx = env.ctx(dsp)
            helper_chan = None
            for cid, c in W.channels.items():
                for (f, n, acts) in W.consumers(cid):
                    if f.path == HELPER + "::run":
                        helper_chan = cid
            routed = False
            for (f, n, p) in W.senders_of(helper_chan) if helper_chan else []:
                if f is dsp:
                    for a in f.ancestors(n):
                        if a["k"] == "match":
                            for arm in a["arms"]:
                                if any(x is n for x in ir.walk(arm["body"])) and arm["pat"].get("path") == CONSENSUS_MSG + "::SyncRequest" \
                                        and "guard" not in arm and a["arms"].index(arm) == 0 or (
                                        any(x is n for x in ir.walk(arm["body"])) and arm["pat"].get("path") == CONSENSUS_MSG + "::SyncRequest" and "guard" not in arm
                                        and not any(b["pat"]["k"] in ("pwild", "pbind") for b in a["arms"][:a["arms"].index(arm)])):
                                    from ..common import inner_cond
                                    extra = inner_cond(env.flow(f), n, arm["body"], drop_ok_facts=True) if arm["body"] is not n else T_
                                    pt = ctx.term(p)
                                    routed = extra == T_ and pt.endswith(".SyncRequest.0,%s.SyncRequest.1)" % pt[1:pt.index(".SyncRequest.0")]) if ".SyncRequest.0" in pt else False
            R.judge(routed, prefix + ".Y5", key(dsp, "SyncRequest(missing, origin) routed unchanged to the helper" + tag), dsp.sp, "",
                    "SyncRequest is not forwarded as (missing, origin) to the helper's channel")
            R.judge("Propose" in handlers, prefix + ".Y5", "Propose replies enter through the proposal handler" + tag, "", "", "no Propose handler")
            # a sync reply is an ordinary Propose of an OLD round: the handler must not filter proposals by anything but
            # leader / validity / payload availability, or missing ancestors are dropped and their descendants wait forever
            if "Propose" in handlers and loopback is not None:
                h, _c = handlers["Propose"]
                hctx = env.ctx(h)
                from ..analysis import atoms_of as _atoms
                for n in [x for x in h.nodes() if x["k"] in ("call", "mcall") and loopback[0].path in callee_paths(x)]:
                    pc = env.flow(h).pathcond(n)
                    extra = []
                    for a in _atoms(pc):
                        if a.startswith(("ok(", "some(")):
                            continue
                        if "get_leader(" in a or ".verify(" in a:
                            continue
                        extra.append(a)
                    R.judge(not extra, prefix + ".Y5", key(h, "no proposal of an old round is filtered out before process_block" + tag), n["sp"], show(pc),
                            "process_block is reached only under the additional condition(s) %s: a sync reply (a valid proposal of a past round) "
                            "failing them is dropped, never stored, and every block parked on it waits forever" % extra)

        # ---------------- Y9 the arms that carry recovery are not starvable by peers' traffic
        # tokio::select! starts polling at a random arm unless `biased;` is written; with `biased;` an arm is only looked at
        # when every earlier arm is pending.  The loop-back arm of Core (parked blocks resumed by the synchronizer) and the
        # resume / retry arms of the synchronizer task must therefore be polled fairly, or precede every arm fed by the network.
        sel_sites = []
        if run is not None and loopback is not None:
            for n in run.nodes():
                if n["k"] == "select":
                    rec = [b["i"] for b in n["branches"] if any(x is loopback[1] for x in ir.walk(b["body"]))]
                    if rec:
                        sel_sites.append((run, n, rec, "the loop-back arm (resumed blocks)"))
        for sn in [f for f in prog.fns.values() if f.self_ty == SYNC and not f.derived]:
            for n in sn.nodes():
                if n["k"] == "select":
                    rec = [b["i"] for b in n["branches"] if b.get("fut") is not None and "recv" not in ir.pp(b["fut"])]
                    if rec and len(rec) < len(n["branches"]):
                        sel_sites.append((sn, n, rec, "the resume / retry arms"))
        R.floor(prefix + ".Y9", len(sel_sites), 2, "select! sites carrying recovery (Core main loop, synchronizer task)" + tag)
        for (f, n, rec, what), i in ordinal_keys(sel_sites, lambda x: x[0].path):
            others = [b["i"] for b in n["branches"] if b["i"] not in rec]
            okf = n.get("fair") is True or (n.get("fair") is False and max(rec) < min(others or [1 << 30]))
            R.judge(okf, prefix + ".Y9", key(f, "recovery arms of select! are polled fairly" + tag, i), n["sp"],
                    "fair=%s recovery arms=%s other arms=%s" % (n.get("fair"), rec, others),
                    "select! is polled in source order (`biased;`) and %s come(s) after arms fed by the network: sustained inflow starves "
                    "them and a lagging node never resumes its parked blocks" % what if n.get("fair") is False else
                    "cannot determine the polling order of this select! (undecidable-shape)")


def check(P, R, tier):
    R.explanation = EXPLANATION
    R.assumptions = ["eventual delivery / peers answering is a liveness assumption, not decided", "store semantics: C16"]
    rules(P, R)
    # Y8: requests, retries and replies travel over the best-effort SimpleSender (C13.E6)
    from ..common import fold as _fold
    _fold(R, P, "c13", ("C13.E6",), "C07.Y8", 4)
    # parked blocks resume through Store::notify_read: every waiter of a key must be woken by the write of that key, also
    # when several blocks wait for the same parent (C16.T3/T4)
    from ..common import fold
    fold(R, P, "c16", ("C16.T2", "C16.T3", "C16.T4"), "C07.Y7", 10)
