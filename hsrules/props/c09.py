"""C09 — One agreed leader per round; only its blocks are voted; it never equivocates."""
from .. import ir
from ..analysis import And, Atom, Not, Or, cmp_formula, implies, show, peel_ty, uncond_subnodes
from ..common import (BLOCK, CORE, Env, call_args, callee_paths, closure_projection, core_handlers, iter_chain, key,
                      msg_param_term, ordinal_keys, in_module)

LEVEL = "other"
CONFIGS = ("default", "benchmark")
ELECTOR = "consensus::leader::RRLeaderElector"
GET_LEADER = ELECTOR + "::get_leader"
MAKE = "consensus::proposer::ProposerMessage::Make"
EXPLANATION = (
    "Static rules: (LE1) get_leader is a pure function of (committee, round): keys of the authorities map, sorted, indexed by "
    "(round [+c]) mod n with n the number of authorities; (L2) a proposal is processed only under block.author == "
    "get_leader(block.round); (L3) ProposerMessage::Make is built at one site from (self.round, self.high_qc, tc) and every "
    "non-boot request is leader-gated after the round advance and under the handler's stale filter; (L4) Block::new has one "
    "caller, reached only from the Make arm; (L5) advance_round cleans the aggregator for rounds below the new round.")

PURE_OK = {"keys", "cloned", "copied", "collect", "sort", "sort_unstable", "size", "len", "iter", "into_iter", "clone"}


def le1(prog, env, R, prefix, tag):
    f = prog.fn(GET_LEADER)
    if not R.judge(f is not None, prefix + ".LE1", "anchor get_leader" + tag, "", "", "anchor-missing: %s" % GET_LEADER,
                   reason="anchor-missing"):
        return
    ctx = env.ctx(f)
    flow = env.flow(f)
    body = f.body
    tail = body.get("expr") if body["k"] == "block" else body
    while tail is not None and tail["k"] == "block" and "expr" in tail and all(
            s_["k"] == "slet" and s_["pat"].get("k") == "pbind" and not s_["pat"].get("mut") for s_ in tail.get("stmts", [])):
        tail = tail["expr"]
    ok_shape = tail is not None and tail["k"] == "index"
    if not R.judge(ok_shape, prefix + ".LE1", key(f, "result is keys[idx]" + tag), f.sp, "",
                   "undecidable-shape: get_leader does not end in an index expression", reason="undecidable-shape"):
        return
    base = tail["e"]
    # keys vector: collected from all authority keys
    kn = base
    decl = None
    if kn["k"] == "var":
        d = ctx.defs.get(kn["id"])
        if d and d[0][0] == "expr":
            decl = d[0][1]
    src_ok = False
    how = ""
    if decl is not None:
        b, chain = iter_chain(decl)
        names = [c[0] for c in chain]
        src_ok = ctx.term(b) in ("self.committee.authorities",) and names and names[0] == "keys" and \
            all(x in ("keys", "cloned", "copied", "collect") for x in names)
        how = "%s.%s" % (ctx.term(b), ".".join(names))
    R.judge(src_ok, prefix + ".LE1", key(f, "keys = all authority keys" + tag), f.sp, how,
            "leader candidates are not exactly the keys of committee.authorities (%s)" % how)
    # sorted before indexing
    sorts = [x for x in flow.dominators(tail) if x["k"] == "mcall" and x["name"] in ("sort", "sort_unstable")
             and x["recv"]["k"] == "var" and kn["k"] == "var" and x["recv"]["id"] == kn["id"]]
    R.judge(bool(sorts), prefix + ".LE1", key(f, "keys sorted before indexing" + tag), tail["sp"], "keys.sort()",
            "the key vector is indexed without being sorted first: HashMap iteration order differs between nodes, so nodes "
            "would disagree on the leader")
    # index = (round [+ c]) % n
    idx = ctx.origin_node(tail["i"])     # the index may first be bound to an immutable local
    oki = False
    howi = ir.pp(idx, maxlen=100)
    if idx["k"] == "bin" and idx["op"] == "%":
        num, den = idx["l"], ctx.origin_node(idx["r"])
        nt = ctx.term(num)
        round_ok = nt == "«u64»" or (nt.startswith("(") and "«u64»" in nt and nt.count("«u64»") == 1 and "*" not in nt and "/" not in nt)
        dt = ctx.term(den)
        den_ok = False
        if dt in ("self.committee.authorities.len()", "local:keys.len()"):
            den_ok = True
        elif den["k"] == "mcall":
            for p in callee_paths(den):
                g = prog.fns.get(p)
                if g is not None:
                    gt = g.body.get("expr") if g.body["k"] == "block" and not g.body.get("stmts") else None
                    if gt is not None and env.ctx(g).term(gt) == "self.authorities.len()" and ctx.term(den["recv"]) == "self.committee":
                        den_ok = True
        oki = round_ok and den_ok
        howi = "%s %% %s" % (nt, dt)
    R.judge(oki, prefix + ".LE1", key(f, "index = round mod n" + tag), tail["sp"], howi,
            "leader index `%s` is not (round [+ c]) mod (number of authorities): rotation would not give every authority one "
            "turn per n rounds" % howi)
    # purity
    impure = []
    for n in f.nodes():
        if n["k"] in ("call", "mcall"):
            name = n.get("name") or n["fn"].rsplit("::", 1)[-1]
            if name not in PURE_OK:
                impure.append(name)
        if n["k"] in ("assign", "assignop") and n["l"]["k"] == "field":
            impure.append("field write")
    R.judge(not impure, prefix + ".LE1", key(f, "pure function of (committee, round)" + tag), f.sp, "",
            "get_leader calls %s: the result may differ between nodes or calls" % impure)


def rules(P, R, prefix="C09"):
    for cfg, prog in P.items():
        env = Env(prog)
        tag = "" if cfg == "default" else "@" + cfg
        le1(prog, env, R, prefix, tag)
        run, handlers, loopback, timer = core_handlers(prog)

        # ---------------- L2 only the leader's block is processed
        if R.judge("Propose" in handlers, prefix + ".L2", "Propose handler found" + tag, "", "", "anchor-missing: Propose arm in Core's loop",
                   reason="anchor-missing"):
            h, _ = handlers["Propose"]
            ctx = env.ctx(h)
            mt = msg_param_term(env, h)
            req = cmp_formula("==", mt + ".author", "self.leader_elector.get_leader(%s.round)" % mt)
            from ..common import effectful_fns
            eff = effectful_fns(env)
            cnt = 0
            for n in h.nodes():
                if n["k"] in ("call", "mcall") and any(p in eff for p in callee_paths(n) if p in prog.fns):
                    if any(a["k"] in ("call", "mcall") and any(p in eff for p in callee_paths(a) if p in prog.fns) for a in h.ancestors(n)):
                        continue
                    pc = env.flow(h).pathcond(n)
                    ok, _ = implies(pc, req)
                    cnt += 1
                    R.judge(ok, prefix + ".L2", key(h, "leader check before `%s`%s" % (ir.pp(n, maxlen=60), tag)), n["sp"], show(req),
                            "`%s` is reachable for a block whose author is not the leader of its round (path condition %s)" % (
                                ir.pp(n, maxlen=60), show(pc)))
            R.floor(prefix + ".L2", cnt, 3, "effectful calls in the Propose handler" + tag)

        # ---------------- L3 proposal requests
        makes = prog.ctor_sites(MAKE)
        makes = [(f, n) for f, n in makes if n["k"] == "ctor"]
        R.floor(prefix + ".L3", len(makes), 1, "ProposerMessage::Make construction sites" + tag)
        gen_fns = []
        for (f, n), i in ordinal_keys(makes, lambda x: x[0].path):
            ctx = env.ctx(f)
            a = [ctx.term(x) for x in n["args"]]
            ok = len(a) == 3 and a[0] == "self.round" and a[1] == "self.high_qc" and f.self_ty == CORE
            R.judge(ok, prefix + ".L3", key(f, "Make(self.round, self.high_qc, tc)" + tag, i), n["sp"], str(a),
                    "ProposerMessage::Make is built from %s, expected (self.round, self.high_qc, tc) inside Core" % a)
            if f not in gen_fns:
                gen_fns.append(f)
        R.judge(len(gen_fns) == 1, prefix + ".L3", "single proposal-request function" + tag, "", str([g.path for g in gen_fns]),
                "ProposerMessage::Make is constructed in %s" % [g.path for g in gen_fns])
        for g in gen_fns:
            sites = prog.calls_to(g.path)
            R.floor(prefix + ".L3", len(sites), 4, "call sites of the proposal-request function" + tag)
            for (f, n), i in ordinal_keys(sites, lambda x: x[0].path):
                ctx = env.ctx(f)
                flow = env.flow(f)
                pc = flow.pathcond(n)
                leader = cmp_formula("==", "self.name", "self.leader_elector.get_leader(self.round)")
                ok, _ = implies(pc, leader)
                R.judge(ok, prefix + ".L3", key(f, "proposal only when self is leader of self.round" + tag, i), n["sp"], show(leader),
                        "a proposal is requested without checking self.name == get_leader(self.round) (path condition %s)" % show(pc))
                is_boot = f is run and not any(a["k"] in ("loop", "while", "select") for a in f.ancestors(n))
                if is_boot:
                    R.ok(prefix + ".L3", key(f, "boot proposal (before the main loop)" + tag, i), n["sp"], "")
                    continue
                # the leader test is evaluated after the round advance
                doms = flow.dominators(n)
                adv = [d for d in doms if d["k"] in ("call", "mcall") and any(
                    p in prog.fns and (CORE, "round") in env.trans_writes(p) for p in callee_paths(d))]
                cond_if = None
                for a in f.ancestors(n):
                    if a["k"] == "if" and "get_leader" in ir.pp(a["c"], maxlen=300):
                        cond_if = a
                        break
                # the certificate that enables this site: assembled (add_vote/add_timeout ... Some) or a received TC
                from ..analysis import atoms_of
                certs = []
                for at in atoms_of(pc):
                    if at.startswith("some(") and (".add_vote(" in at or ".add_timeout(" in at):
                        certs.append(at[5:-1] + ".Some")
                mt0 = msg_param_term(env, f)
                if mt0 == "«TC»":
                    certs.append(mt0)
                after = False
                on_cert = None
                if cond_if is not None:
                    d_if = flow.dominators(cond_if)
                    for d in adv:
                        if not any(x is d for x in d_if):
                            continue
                        after = True
                        for a in call_args(d)[1:]:
                            t = ctx.term(a)
                            if any(t == c or t.startswith(c + ".") for c in certs):
                                on_cert = d
                R.judge(bool(adv) and after and on_cert is not None, prefix + ".L3",
                        key(f, "round advanced on the new certificate before the leader test" + tag, i), n["sp"],
                        "advance at %s on %s" % (on_cert["sp"] if on_cert else None, certs),
                        "the proposal request is not preceded by a round advance on the certificate just obtained (%s), evaluated "
                        "before the leader test: the node could propose twice for one round" % certs)
                mt = msg_param_term(env, f)
                if mt is not None:
                    stale = Not(cmp_formula("<", mt + ".round", "self.round"))
                    ok, _ = implies(pc, stale)
                    R.judge(ok, prefix + ".L3", key(f, "stale certificates filtered before proposing" + tag, i), n["sp"], show(stale),
                            "a message for a past round (%s.round < self.round) can trigger a proposal: a replayed certificate makes the "
                            "leader sign a second block for its round (path condition %s)" % (mt, show(pc)))

        # ---------------- L4 one signer of blocks
        bsites = prog.calls_to(BLOCK + "::new")
        R.floor(prefix + ".L4", len(bsites), 1, "Block::new call sites" + tag)
        bfns = []
        for f, n in bsites:
            if f not in bfns:
                bfns.append(f)
        R.judge(len(bfns) == 1, prefix + ".L4", "single block-signing function" + tag, "", str([b.path for b in bfns]),
                "Block::new is called from %s" % [b.path for b in bfns])
        lits = [(f, n) for f, n in prog.struct_lits(BLOCK) if not in_module(f, "consensus::messages")]
        for (f, n), i in ordinal_keys(lits, lambda x: x[0].path):
            R.fail(prefix + ".L4", key(f, "Block{..} literal" + tag, i), n["sp"], "Block struct literal outside consensus::messages")
        for b in bfns:
            cs = prog.calls_to(b.path)
            R.floor(prefix + ".L4", len(cs), 1, "callers of the block-signing function" + tag)
            for (f, n), i in ordinal_keys(cs, lambda x: x[0].path):
                ctx = env.ctx(f)
                in_make = False
                for a in f.ancestors(n):
                    if a["k"] == "match":
                        for arm in a["arms"]:
                            if any(x is n for x in ir.walk(arm["body"])) and arm["pat"].get("path") == MAKE:
                                in_make = True
                R.judge(in_make, prefix + ".L4", key(f, "block made only on ProposerMessage::Make" + tag, i), n["sp"], "",
                        "the block-signing function is called outside the Make arm")
                # round/qc/tc arguments are the ones carried by Make
                a = call_args(n)
                ts = [ctx.term(x) for x in a[1:]]
                R.sample({"rule": prefix + ".L4", "make_block_args": ts})
            # Block::new(qc, tc, self.name, round, ..)
            bctx = env.ctx(b)
            for (f, n) in [(f, n) for f, n in bsites if f is b]:
                a = [bctx.term(x) for x in n["args"]]
                ok = len(a) >= 4 and a[2] == "self.name" and a[0].startswith("«QC»") and a[3].startswith("«u64»")
                R.judge(ok, prefix + ".L4", key(b, "Block::new(qc, tc, self.name, round, ..) from the Make payload" + tag), n["sp"], str(a[:4]),
                        "Block::new arguments %s are not (qc, tc, self.name, round) of the request" % a[:4])

        # ---------------- L5 aggregator cleanup on advance
        adv_fns = [f for f in prog.methods_of(CORE) if any(k in ("assign", "assignop") for (_f, _n, k) in prog.field_writes(CORE, "round", [f]))]
        R.floor(prefix + ".L5", len(adv_fns), 1, "round-advancing function" + tag)
        for f in adv_fns:
            ctx = env.ctx(f)
            flow = env.flow(f)
            cl = [n for n in f.nodes() if n["k"] == "mcall" and "consensus::aggregator::Aggregator::cleanup" in callee_paths(n)]
            ok = False
            for c in cl:
                w = [d for d in flow.dominators(c) if d["k"] == "assign" and d["l"]["k"] == "field" and d["l"]["name"] == "round"]
                if w and ctx.term(c["args"][0]) == "self.round":
                    ok = True
            R.judge(ok, prefix + ".L5", key(f, "aggregator.cleanup(&self.round) after the round write" + tag), f.sp, "",
                    "advance_round does not clean the aggregator with the new round: certificates of abandoned rounds can still be assembled")
        cu = prog.fn("consensus::aggregator::Aggregator::cleanup")
        if cu is not None:
            ctx = env.ctx(cu)
            rets = [n for n in cu.nodes() if n["k"] == "mcall" and n["name"] == "retain"]
            maps = sorted(ctx.term(n["recv"]) for n in rets)
            okm = maps == ["self.timeouts_aggregators", "self.votes_aggregators"]
            okc = True
            for n in rets:
                clo = n["args"][0]
                body = clo["body"]
                while body["k"] == "block" and not body.get("stmts") and "expr" in body:
                    body = body["expr"]
                fm = ctx.formula(body)
                kt = ctx.var_term(clo["params"][0]["id"], clo["params"][0]["name"]) if clo["params"][0]["k"] == "pbind" else "?"
                want = cmp_formula(">=", kt, "«u64»")
                if not (implies(fm, want)[0] and implies(want, fm)[0]):
                    okc = False
            R.judge(okm and okc, prefix + ".L5", key(cu, "cleanup retains exactly rounds >= round in both maps" + tag), cu.sp, str(maps),
                    "Aggregator::cleanup must retain keys >= round in votes_aggregators and timeouts_aggregators; found %s" % maps)


def check(P, R, tier):
    R.explanation = EXPLANATION
    R.assumptions = ["Vec::sort on PublicKey (derived Ord over the key bytes) is deterministic",
                     "absence of a second Make per round under all interleavings additionally uses: every L3 site strictly raises self.round first (argument, not machine-checked)"]
    rules(P, R)
    # L6 "blocks authored AND SIGNED by that round's leader": Block::verify checks the author's signature over the block digest
    # on every path to Ok (C04.S2)
    from ..common import fold
    fold(R, P, "c04", ("C04.S2",), "C09.L6", 20)
