"""C02 — Each node delivers committed blocks exactly once, in chain order (structural clauses of the commit path)."""
import re

from .. import ir
from ..analysis import And, Atom, Not, Or, T, cmp_formula, implies, show, diverges
from ..common import BLOCK, CORE, Env, call_args, callee_paths, key, ordinal_keys, MPSC_SEND
from ..paths import enum_paths, TooManyPaths
from ..wiring import Wiring
from . import c05

LEVEL = "other"
CONFIGS = ("default", "benchmark")
SYNC = "consensus::synchronizer::Synchronizer"
EXPLANATION = (
    "Static rules on the function(s) that send on the commit channel: (R1) every block placed in the delivery queue is guarded by "
    "a comparison of THAT block's own round with last_committed_round (strictly greater) - the head by the entry test, every "
    "walked ancestor by a test on the ancestor just fetched; (R2) the ancestors are discovered newest to oldest by a parent walk "
    "(a_{i+1} = get_parent_block(a_i), a_0 = head) and a symbolic evaluation of the queue operations (VecDeque push/pop at either "
    "end, Vec push/insert(0)/pop/remove(0)/reverse, for-loops with rev) for 0..3 ancestors must drain as oldest..newest,head; "
    "(R3) last_committed_round is written only here, with the head's round, on the straight-line path before the drain, under "
    "head.round > last_committed_round; (R4) the commit channel has no other sender and every drained element is sent on every "
    "path of the drain loop; (R5) the committing function is only called under the 2-chain guard (C05.K1/K2); (R6) the parent "
    "lookup returns genesis only for the genesis QC and otherwise the block stored under qc.hash (C05.K4). Contiguity across "
    "successive commit calls rests on C01 and is not decided.")

FRONT, BACK = "front", "back"


def sim(ops_pre, ops_body, ops_post, drain, k):
    """Concrete simulation of the queue operations for k walked ancestors a1 (newest) .. ak (oldest)."""
    q = []

    def apply(op, val):
        kind = op[0]
        if kind == "push":
            if op[1] == FRONT:
                q.insert(0, val)
            else:
                q.append(val)
        elif kind == "reverse":
            q.reverse()
    for op in ops_pre:
        apply(op, op[2] if len(op) > 2 else None)
    for i in range(1, k + 1):
        for op in ops_body:
            apply(op, "a%d" % i if (len(op) > 2 and op[2] == "anc") else (op[2] if len(op) > 2 else None))
    for op in ops_post:
        apply(op, op[2] if len(op) > 2 else None)
    out = []
    kind, end = drain
    if kind == "pop":
        while q:
            out.append(q.pop(0) if end == FRONT else q.pop())
    else:  # iterate
        out = list(q) if end == FRONT else list(reversed(q))
    return out


def rules(P, R, prefix="C02"):
    for cfg, prog in P.items():
        env = Env(prog)
        W = Wiring(prog, env)
        tag = "" if cfg == "default" else "@" + cfg
        cc = c05.commit_channel(W)
        if not R.judge(cc is not None, prefix + ".R4", "commit channel found" + tag, "", "", "anchor-missing: Block channel created in Node::new",
                       reason="anchor-missing"):
            continue
        senders = W.senders_of(cc)
        R.floor(prefix + ".R4", len(senders), 1, "send sites on the commit channel" + tag)
        sfns = []
        for (f, n, p) in senders:
            if f not in sfns:
                sfns.append(f)
        R.judge(len(sfns) == 1 and sfns[0].self_ty == CORE, prefix + ".R4", "single outlet to the application" + tag, "",
                str([f.path for f in sfns]), "blocks are handed to the application from %s" % [f.path for f in sfns])
        for cf in sfns:
            ctx = env.ctx(cf)
            flow = env.flow(cf)
            # ---- the queue: a local VecDeque/Vec of blocks that the sent value is drained from
            snd = [(n, p) for (f, n, p) in senders if f is cf]
            drains = []
            for (n, p) in snd:
                pt = ctx.term(p)
                m = re.match(r"^local:(?P<q>\w+)\.(?P<op>pop_front|pop_back|pop)\(\)\.Some$", pt)
                m2 = re.match(r"^local:(?P<q>\w+)(?P<rev>\.rev\(\))?\[\*\]$", pt) or re.match(r"^local:(?P<q>\w+)\.drain\(RangeFull\{\}\)(?P<rev>\.rev\(\))?\[\*\]$", pt)
                if m:
                    end = FRONT if m.group("op") == "pop_front" else BACK
                    drains.append((n, m.group("q"), ("pop", end)))
                elif m2:
                    drains.append((n, m2.group("q"), ("iter", BACK if m2.group("rev") else FRONT)))
                else:
                    R.fail(prefix + ".R2", key(cf, "delivered value is drained from the commit queue" + tag), n["sp"],
                           "the value sent on the commit channel is `%s`: not an element popped/iterated from a local queue (undecidable-shape)" % pt,
                           reason="undecidable-shape")
            if not drains:
                continue
            qname = drains[0][1]
            Q = "local:" + qname
            head = None
            ps = [p for p in cf.params if p["k"] == "pbind" and p["name"] != "self"]
            if ps:
                head = ctx.var_term(ps[0]["id"], ps[0]["name"])
            # ---- all operations on the queue
            qops = [n for n in cf.nodes() if n["k"] == "mcall" and ctx.term(n["recv"]) == Q]
            from ..common import sync_fns
            gp_fn, _ga = sync_fns(prog, env)
            GP = gp_fn.path if gp_fn is not None else SYNC + "::get_parent_block"
            GPN = (gp_fn.name if gp_fn is not None else "get_parent_block") + "("
            walk = None       # the loop that fetches ancestors
            for n in cf.nodes():
                if n["k"] in ("while", "loop") and any(x["k"] == "mcall" and GP in callee_paths(x) for x in ir.walk(n["body"], into_closures=False)):
                    walk = n
            top = cf.body.get("stmts", []) + ([cf.body["expr"]] if "expr" in cf.body else [])

            def region(n):
                for i, s in enumerate(top):
                    if s is n or any(x is n for x in ir.walk(s)):
                        return i, s
                return None, None
            wi = region(walk)[0] if walk is not None else None
            di = region(drains[0][0])[0]
            pre, body, post = [], [], []
            undec = []
            pushes = []
            for n in qops:
                name = n["name"]
                i, s = region(n)
                if name in ("pop_front", "pop_back", "pop", "iter", "into_iter", "drain", "len", "is_empty"):
                    continue
                if name in ("push_front", "push_back", "push") or (name == "insert" and ir.pp(n["args"][0]) == "0"):
                    end = FRONT if name in ("push_front", "insert") else BACK
                    val = n["args"][-1]
                    vt = ctx.term(val)
                    if walk is not None and any(x is n for x in ir.walk(walk)):
                        isanc = GPN in vt
                        body.append(("push", end, "anc" if isanc else vt))
                        if not isanc:
                            undec.append("%s pushes `%s` inside the ancestor walk" % (n["sp"], vt))
                        pushes.append((n, val, "anc"))
                    else:
                        lst = pre if (wi is None or i < wi) else post
                        lst.append(("push", end, "head" if vt == head else vt))
                        pushes.append((n, val, "head" if vt == head else "other"))
                        if s is not n and not (s["k"] in ("mcall",) or s is n):
                            # conditional push outside the walk
                            if flow.pathcond(n) != T and any(a["k"] in ("if", "match", "loop", "while", "for") for a in cf.ancestors(n)):
                                undec.append("%s: push of `%s` is conditional" % (n["sp"], vt))
                elif name == "reverse":
                    (pre if (wi is None or i < wi) else post).append(("reverse",))
                else:
                    undec.append("%s: queue operation `%s` is outside the modelled vocabulary" % (n["sp"], name))
            if not R.judge(not undec, prefix + ".R2", key(cf, "queue operations within the modelled vocabulary" + tag), cf.sp, "%d ops" % len(qops),
                           "; ".join(undec) + " (undecidable-shape)", reason="undecidable-shape"):
                continue

            # ---- R2a: the walk goes parent by parent starting at the head
            if R.judge(walk is not None, prefix + ".R2", key(cf, "ancestor walk found" + tag), cf.sp, "", "no loop calling get_parent_block in %s: "
                       "uncommitted ancestors are not delivered (anchor-missing)" % cf.path, reason="anchor-missing"):
                gp = [x for x in ir.walk(walk["body"], into_closures=False) if x["k"] == "mcall" and GP in callee_paths(x)]
                ok = len(gp) == 1 and deref_var(gp[0]["args"][0]) is not None
                cur = deref_var(gp[0]["args"][0]) if ok else None
                why = ""
                if ok:
                    vid = cur["id"]
                    inits = [x["init"] for x in cf.nodes() if x["k"] == "slet" and x["pat"].get("k") == "pbind" and x["pat"].get("id") == vid and "init" in x]
                    asg = [x for x in cf.nodes() if x["k"] == "assign" and x["l"]["k"] == "var" and x["l"]["id"] == vid]
                    it = [ctx.term(x) for x in inits]
                    at = [ctx.term(x["r"]) for x in asg]
                    anc_t = ctx.term(gp[0])
                    ok = it == [head] and at == [anc_t] and all(any(y is x for y in ir.walk(walk["body"])) for x in asg)
                    why = "cursor init %s, advanced with %s" % (it, at)
                    # the advance is the last thing in the iteration after the push
                R.judge(ok, prefix + ".R2", key(cf, "walk: a0 = head, a(i+1) = get_parent_block(a(i))" + tag), walk["sp"], why,
                        "the ancestor walk does not follow parent links from the head block: %s" % why)

            # ---- R2c: the walk only stops at an ancestor that is already committed (or when its loop condition fails):
            # any other exit (a size bound, a time budget ..) leaves older uncommitted ancestors behind while the watermark
            # moves past them
            if walk is not None:
                from ..common import inner_cond
                anc_terms = [ctx.term(val) for (n_, val, cls) in pushes if cls == "anc"]
                exits = [x for x in ir.walk(walk["body"], into_closures=False) if x["k"] in ("break", "ret")]
                for x, i in ordinal_keys(exits, lambda y: y["k"]):
                    ic = inner_cond(flow, x, walk["body"])
                    okx = any(implies(ic, cmp_formula("<=", at_ + ".round", "self.last_committed_round"))[0] for at_ in anc_terms)
                    if not okx:
                        # the loop condition written as a `break`: the walk cursor itself is at most one round above the watermark,
                        # so its parent (a strictly lower round) is committed
                        gpc = [y for y in ir.walk(walk["body"], into_closures=False) if y["k"] == "mcall" and GP in callee_paths(y)]
                        cv = deref_var(gpc[0]["args"][0]) if len(gpc) == 1 else None
                        if cv is not None:
                            okx = implies(ic, Not(cmp_formula("<", "(1+self.last_committed_round)", ctx.term(cv) + ".round")))[0]
                    R.judge(okx, prefix + ".R2", key(cf, "ancestor walk stops only at an already committed ancestor" + tag, i), x["sp"], show(ic),
                            "the ancestor walk can stop under `%s`, which does not say that the ancestor just fetched is already committed: "
                            "older uncommitted ancestors are then never delivered" % show(ic))

            # ---- R2b: symbolic evaluation of the queue
            bad = []
            shown = None
            for k in range(0, 4):
                got = sim(pre, body, post, drains[0][2], k)
                want = ["a%d" % i for i in range(k, 0, -1)] + ["head"]
                if k == 2:
                    shown = got
                if got != want:
                    bad.append("with %d uncommitted ancestor(s) (a1 = parent of head .. a%d oldest) the queue drains as %s, required %s" % (k, k, got, want))
            R.judge(not bad, prefix + ".R2", key(cf, "drained order is oldest ancestor .. newest ancestor, head" + tag), drains[0][0]["sp"],
                    "ops pre=%s walk=%s post=%s drain=%s ; k=2 drains %s" % (pre, body, post, drains[0][2], shown), "; ".join(bad[:2]))
            R.sample({"rule": prefix + ".R2", "function": cf.path, "pre": pre, "walk": body, "post": post, "drain": drains[0][2], "k2": shown})

            # ---- R1: each enqueued block is guarded by its own round
            R.floor(prefix + ".R1", len(pushes), 2, "blocks enqueued for delivery (head + walked ancestors)" + tag)
            for (n, val, cls), i in ordinal_keys(pushes, lambda x: x[2]):
                vt = ctx.term(val)
                pc = flow.pathcond(n)
                req = cmp_formula(">", vt + ".round", "self.last_committed_round")
                ok, cex = implies(pc, req)
                R.judge(ok, prefix + ".R1", key(cf, "enqueued %s block has round > last_committed_round%s" % (cls, tag), i), n["sp"],
                        "%s => %s" % (show(pc), show(req)),
                        "block `%s` is queued for delivery without a test of ITS round against the watermark (path condition: %s; required: %s): "
                        "genesis or an already delivered block can be delivered" % (vt, show(pc), show(req)))
                R.sample({"rule": prefix + ".R1", "site": n["sp"], "value": vt, "path_condition": show(pc), "required": show(req)})

            # ---- R3: watermark update
            lw = [(f, n, k2) for (f, n, k2) in prog.field_writes(CORE, "last_committed_round") if k2 in ("assign", "assignop", "refmut")]
            R.floor(prefix + ".R3", len(lw), 1, "writes of last_committed_round" + tag)
            for (f, n, k2), i in ordinal_keys(lw, lambda x: x[0].path):
                if f is not cf:
                    R.fail(prefix + ".R3", key(f, "watermark written only by the committing function" + tag, i), n["sp"],
                           "last_committed_round is written in %s" % f.path)
                    continue
                okv = k2 == "assign" and ctx.term(n["r"]) == (head or "?") + ".round"
                pc = flow.pathcond(n)
                okm, _ = implies(pc, cmp_formula(">", (head or "?") + ".round", "self.last_committed_round"))
                ri, rs = region(n)
                straight = rs is n and ri is not None and ri < di
                R.judge(okv and okm, prefix + ".R3", key(cf, "watermark := head.round, monotone" + tag, i), n["sp"],
                        "%s under %s" % (ir.pp(n), show(pc)), "watermark update `%s` is not `= head.round` under head.round > last_committed_round (%s)" % (ir.pp(n), show(pc)))
                R.judge(straight, prefix + ".R3", key(cf, "watermark updated on every path before the drain" + tag, i), n["sp"], "",
                        "the watermark update is conditional or after the drain loop: a later commit can re-deliver these blocks")
                after_walk = wi is None or (ri is not None and ri > wi)
                R.judge(after_walk, prefix + ".R3", key(cf, "watermark updated only after the ancestor walk" + tag, i), n["sp"], "",
                        "last_committed_round is overwritten before the ancestor walk that is bounded by it: the walk compares against the NEW "
                        "watermark and never collects the uncommitted ancestors (they are skipped for good)")
            # the watermark is stable during the walk: no write inside the walk loop / before the pushes' guards
            if walk is not None:
                inw = [n for (f, n, k2) in lw if f is cf and any(x is n for x in ir.walk(walk))]
                R.judge(not inw, prefix + ".R3", key(cf, "watermark not modified during the ancestor walk" + tag), walk["sp"], "", "last_committed_round is written inside the walk")

            # ---- R4: every drained element is sent
            for (n, qn, dr), i in ordinal_keys(drains, lambda x: 0):
                spawned = [a for a in cf.ancestors(n) if a["k"] == "call" and a.get("fn") == "tokio::task::spawn::spawn"]
                R.judge(not spawned, prefix + ".R4", key(cf, "blocks are handed over by the committing task itself" + tag, i), n["sp"], "",
                        "the hand-over runs in a task spawned per commit: deliveries of successive commits race for the bounded channel and can "
                        "reach the application out of chain order")
                par = cf.parents().get(id(n))
                blocking = MPSC_SEND in callee_paths(n) and par is not None and par["k"] == "await"
                R.judge(blocking, prefix + ".R4", key(cf, "hand-over to the application is a blocking send (never dropped when the channel is full)" + tag, i), n["sp"],
                        str(callee_paths(n)), "the committed block is handed over with `%s` (not an awaited Sender::send): when the bounded commit channel is "
                        "full the block is dropped although the watermark already moved past it" % n["name"])
                loop = None
                for a in cf.ancestors(n):
                    if a["k"] in ("while", "for", "loop"):
                        loop = a
                        break
                ok = loop is not None
                why = ""
                if ok:
                    try:
                        paths = enum_paths(ctx, loop["body"])
                        badp = []
                        for p in paths:
                            if p.exit == "panic":
                                continue
                            c = sum(1 for e in p.events if e is n)
                            if c != 1 or p.exit != "fall":
                                badp.append("[%s] sends %d times, exit %s" % (show(p.cond())[:120], c, p.exit))
                        ok = not badp
                        why = "; ".join(badp[:3]) or "%d paths" % len(paths)
                    except TooManyPaths:
                        ok = False
                        why = "too many paths (undecidable-shape)"
                R.judge(ok, prefix + ".R4", key(cf, "every drained block is sent exactly once" + tag, i), n["sp"], why,
                        "a block taken from the commit queue can be skipped or end the drain early: " + why)

        # ---------------- R5 / R6: shared with C05 (K1, K2 callers; K4 parent lookup)
        aux = _Aux()
        c05.rules({cfg: prog}, aux)
        for r in aux.rules:
            rid = r["key"].split("|")[0]
            if rid in ("C05.K1", "C05.K2", "C05.K4"):
                new = prefix + (".R5" if rid in ("C05.K1", "C05.K2") else ".R6")
                k2 = "%s:%s" % (rid, r["key"].split("|", 1)[1])
                if r["ok"]:
                    R.ok(new, k2, r["loc"], r["detail"])
                else:
                    R.fail(new, k2, r["loc"], r["detail"])


def deref_var(n):
    while n["k"] in ("ref",) or (n["k"] == "un" and n.get("op") == "*") or (n["k"] == "mcall" and n["name"] == "clone"):
        n = n["e"] if n["k"] != "mcall" else n["recv"]
    return n if n["k"] == "var" else None


class _Aux:
    """Minimal Report stand-in to re-evaluate another module's rules."""

    def __init__(self):
        self.rules = []

    def ok(self, rule, key_, loc="", detail=""):
        self.rules.append({"rule": rule, "key": "%s|%s" % (rule, key_), "ok": True, "loc": loc, "detail": detail})

    def fail(self, rule, key_, loc, msg, **extra):
        self.rules.append({"rule": rule, "key": "%s|%s" % (rule, key_), "ok": False, "loc": loc, "detail": msg})

    def judge(self, cond, rule, key_, loc="", ok_detail="", fail_msg="", **extra):
        (self.ok if cond else self.fail)(rule, key_, loc, ok_detail if cond else (fail_msg or ok_detail))
        return cond

    def floor(self, rule, count, minimum, what):
        if count < minimum:
            self.fail(rule, "floor|" + what, "", "instance count %d below floor %d for %s" % (count, minimum, what))
            return False
        return True

    def sample(self, obj):
        pass

    def note(self, t):
        pass

    def stat(self, k, v):
        pass


def check(P, R, tier):
    R.explanation = EXPLANATION
    R.assumptions = ["the store returns what was written under a key (C16)",
                     "successive commit calls deliver contiguous chains only given agreement (C01); not decided here"]
    rules(P, R)
