"""C01 — Agreement: the local obligations the 2-chain HotStuff safety argument consumes (conjunction of necessary conditions).

Agreement itself is an inductive argument over all schedules and Byzantine behaviours and is NOT decided here. Every
obligation below is re-evaluated from the fact base of the current tree by the module that defines it and reported under
C01 with its own rule id, so a violation names the construct that breaks it."""
from .c02 import _Aux

LEVEL = "other"
CONFIGS = ("default", "benchmark")
EXPLANATION = (
    "Conjunction of the local safety obligations of 2-chain HotStuff, each a necessary condition of agreement (dropping any one "
    "admits a concrete disagreement with <= f Byzantine authorities): A1 = C03.V1-V6 one vote per round, increasing, none after a "
    "timeout, only safe extensions (QC of r-1, or TC of r-1 with qc.round >= max reported high-QC round); A2 = C05.K1-K5 commit only "
    "on a certified consecutive-round 2-chain resolved through parent links; A3 = C04.S1-S4 every QC/TC/vote/timeout/proposal is "
    "verified (distinct members, stake >= quorum, signatures over the right digest) before it has any effect; A4 = C17.O1-O6 quorum "
    "= floor(2n/3)+1 in both committees, compared with >=; A5 = C09.LE1/L2/L3/L4 one deterministic leader per round, only its block "
    "is processed, one proposal per round; A6 = C19.G1-G4 certificates are assembled from distinct authors of one (round, block) "
    "only at quorum; A7 = C10.P1-P3 rounds only advance on certificates and high_qc is a running maximum carried by timeouts; "
    "A8 = C20.H1-H4 the signed digests bind (author, round, payload, parent) and do not collide across message kinds. That these "
    "obligations SUFFICE is the protocol's safety proof (paper argument), which is outside this technique family.")

PARTS = [
    ("A1", "c03", ("C03.V1", "C03.V2", "C03.V3", "C03.V4", "C03.V5", "C03.V6"), 10),
    ("A2", "c05", ("C05.K1", "C05.K2", "C05.K3", "C05.K4", "C05.K5"), 10),
    ("A3", "c04", ("C04.S1", "C04.S2", "C04.S3", "C04.S4"), 30),
    ("A4", "c17", ("C17.O1", "C17.O2", "C17.O3", "C17.O4", "C17.O5", "C17.O6"), 12),
    ("A5", "c09", ("C09.LE1", "C09.L2", "C09.L3", "C09.L4", "C09.L5"), 15),
    ("A6", "c19", ("C19.G1", "C19.G2", "C19.G3", "C19.G4", "C19.G5"), 12),
    ("A7", "c10", ("C10.P1", "C10.P2", "C10.P3", "C10.P5"), 10),
    ("A8", "c20", ("C20.H1", "C20.H2", "C20.H3", "C20.H4", "C20.H5"), 10),
]


def rules(P, R, prefix="C01"):
    for cfg, prog in P.items():
        tag = "" if cfg == "default" else "@" + cfg
        for (aid, modname, rids, floor) in PARTS:
            aux = _Aux()
            try:
                mod = __import__("hsrules.props." + modname, fromlist=["rules"])
                mod.rules({cfg: prog}, aux)
            except Exception as e:       # a crashing dependency fails closed
                R.fail(prefix + "." + aid, "%s rules evaluate%s" % (modname.upper(), tag), "", "rules of %s crashed: %r" % (modname.upper(), e))
                continue
            n = 0
            for r in aux.rules:
                if r["rule"] in rids:
                    n += 1
                    k = "%s:%s" % (r["rule"], r["key"].split("|", 1)[1])
                    (R.ok if r["ok"] else R.fail)(prefix + "." + aid, k, r["loc"], r["detail"])
            R.floor(prefix + "." + aid, n, floor, "obligations contributed by %s%s" % (modname.upper(), tag))
    R.sample({"obligation": "A1..A8", "argument": "two conflicting commits need two certified 2-chains; by A4 any two quorums share an honest voter, "
              "who by A1 votes once per round and never for a block that bypasses a block it helped certify in the previous round unless a TC "
              "shows no quorum voted for it (max high-QC rule); A2/A3/A5/A6/A7/A8 make every certificate/leader/digest mean what the argument assumes"})


def check(P, R, tier):
    R.explanation = EXPLANATION
    R.assumptions = ["the sufficiency of the obligations (the HotStuff 2-chain safety proof) is not machine-checked",
                     "last_voted_round is not persisted (source TODO #15); the property does not quantify over crash-restarts of honest nodes",
                     "ed25519 unforgeability, SHA-512 collision resistance"]
    rules(P, R)
