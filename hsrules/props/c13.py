"""C13 — End to end (second sentence only): the digest flow and the missing-batch fetch-and-resume path exist hop by hop.

"Every submitted transaction is eventually committed by all" is liveness and is NOT decided."""
import re

from .. import ir
from ..analysis import And, Atom, Not, Or, T, atoms_of, cmp_formula, implies, show, sure_subnodes
from ..common import BLOCK, CORE, Env, call_args, callee_paths, key, ordinal_keys, MPSC_SEND, MPSC_RECV
from ..panics import PanicAnalysis
from ..wiring import Wiring
from .c02 import _Aux
from .c07 import _cmp_terms

LEVEL = "other"
CONFIGS = ("default", "benchmark")
MSYNC = "mempool::synchronizer::Synchronizer"
MHELP = "mempool::helper::Helper"
PROPOSER = "consensus::proposer::Proposer"
SIMPLE = "network::simple_sender::SimpleSender::"
EXPLANATION = (
    "The first sentence of the property (eventual commit everywhere) is a liveness statement and is not decided. Decided is the "
    "path the second sentence describes, as a chain of wiring-graph hops that must each exist with matching message variant, "
    "address class and store-key class: (E1) digest flow Processor -> proposer buffer -> block payload, buffer entries removed only "
    "by the payload drain and by Cleanup(payloads of b0, b1, block); (E2) a payload miss sends Synchronize(missing, author) to the "
    "mempool synchronizer, which registers a notify_read waiter per new digest and sends BatchRequest(all of them, own name) to "
    "mempool_address(author); the peer's handler routes BatchRequest to its helper, which reads each requested digest and sends "
    "the stored bytes unchanged to mempool_address(requester); those bytes are a serialized MempoolMessage::Batch (what Processors "
    "store), so the requester's handler feeds them to its Processor, which stores them under their hash (C11.B4) and thereby "
    "wakes the payload waiter (C08.D4) that loops the block back to process_block (C05.K3); (E3) the synchronizer's timer arm "
    "re-requests every digest pending longer than sync_retry_delay from sync_retry_nodes random peers and re-arms on every path; "
    "(E4) mempool and consensus share one Store; (E5) the mempool helper has no undischarged panic site.")


def rules(P, R, prefix="C13"):
    for cfg, prog in P.items():
        env = Env(prog)
        W = Wiring(prog, env)
        tag = "" if cfg == "default" else "@" + cfg

        # ---------------- E1 digest flow and buffer removals (feeding side is C08.D6)
        from . import c08
        aux = _Aux()
        try:
            c08.rules({cfg: prog}, aux)
        except Exception as e:
            aux.fail("C08.D6", "crash", "", "C08 rules crashed: %r" % e)
        cnt = 0
        for r in aux.rules:
            if r["rule"] in ("C08.D6", "C08.D3", "C08.D4"):
                cnt += 1
                new = prefix + (".E1" if r["rule"] == "C08.D6" else ".E2")
                (R.ok if r["ok"] else R.fail)(new, r["rule"] + ":" + r["key"].split("|", 1)[1], r["loc"], r["detail"])
        R.floor(prefix + ".E1", cnt, 8, "shared obligations C08.D3/D4/D6" + tag)
        removals = []
        for f in prog.methods_of(PROPOSER):
            c = env.ctx(f)
            for n in f.nodes():
                if n["k"] == "mcall" and n["name"] in ("remove", "drain", "clear", "retain", "take") and c.term(n["recv"]) == "self.buffer":
                    removals.append((f, n))
        R.floor(prefix + ".E1", len(removals), 2, "removals from the proposer's digest buffer" + tag)
        for (f, n), i in ordinal_keys(removals, lambda x: (x[0].path, x[1]["name"])):
            c = env.ctx(f)
            if n["name"] == "drain":
                ok = any(a["k"] == "call" and BLOCK + "::new" in callee_paths(a) for a in f.ancestors(n))
                R.judge(ok, prefix + ".E1", key(f, "buffer drained only into a new block's payload" + tag, i), n["sp"], "", "the digest buffer is drained outside Block::new(..payload..)")
            elif n["name"] == "remove":
                at = c.term(n["args"][0])
                ok = bool(re.match(r"^sel\(self\.\w+\.recv\(\)\)\.Some\.Cleanup\.0\[\*\]$", at))
                R.judge(ok, prefix + ".E1", key(f, "digests removed only on Cleanup(digests)" + tag, i), n["sp"], at, "buffer.remove(%s) is not driven by a Cleanup message" % at)
            else:
                R.fail(prefix + ".E1", key(f, "buffer.%s%s" % (n["name"], tag), i), n["sp"], "digests can leave the proposer's buffer via %s: submitted batches may never be proposed" % n["name"])
        cl = [(f, n) for (f, n) in prog.ctor_sites("consensus::proposer::ProposerMessage::Cleanup") if n["k"] == "ctor"]
        R.floor(prefix + ".E1", len(cl), 1, "Cleanup construction" + tag)
        for (f, n), i in ordinal_keys(cl, lambda x: x[0].path):
            t = env.ctx(f).term(n["args"][0])
            ok = bool(re.match(r"^«Block#0»\.payload\.chain\(«Block#1»\.payload\)\.chain\(«Block#2»\.payload\)\.collect\(\)$", t))
            callers = prog.calls_to(f.path)
            okc = all(g.self_ty == CORE for g, c in callers) and callers
            R.judge(ok and okc, prefix + ".E1", key(f, "Cleanup carries only payloads of processed blocks (b0, b1, block)" + tag, i), n["sp"], t, "Cleanup(%s) from %s" % (t, [g.path for g, c in callers]))

        # ---------------- E2 synchronize -> request
        sr = prog.fn(MSYNC + "::run")
        from ..common import waiter_fn
        wf = waiter_fn(prog, MSYNC)
        if R.judge(sr is not None and wf is not None, prefix + ".E2", "anchors mempool Synchronizer::run/waiter" + tag, "", "", "anchor-missing", reason="anchor-missing"):
            ctx = env.ctx(sr)
            flow = env.flow(sr)
            # the command channel comes from MempoolDriver (consensus) -- wiring
            rx = [n for n in sr.nodes() if n["k"] == "mcall" and MPSC_RECV in callee_paths(n)]
            chans = set()
            for n in rx:
                chans |= {cid for (cid, end) in W.ep(sr, n["recv"]) if end == "rx"}
            snd_fns = sorted(set(f.path for cid in chans for (f, n, p) in W.senders_of(cid)))
            R.judge(any(p.startswith("consensus::mempool::MempoolDriver::") for p in snd_fns) and all(p.startswith("consensus::mempool::MempoolDriver::") for p in snd_fns),
                    prefix + ".E2", "synchronizer commands come from the consensus MempoolDriver" + tag, "", str(snd_fns), "command channel senders: %s" % snd_fns)
            SY = None
            for n in sr.nodes():
                if n["k"] == "mcall" and n["name"] == "contains_key":
                    m = re.match(r"^(sel\(self\.\w+\.recv\(\)\)\.Some\.Synchronize)\.0\[\*\]$", ctx.term(n["args"][0]))
                    if m:
                        SY = m.group(1)
            if R.judge(SY is not None, prefix + ".E2", key(sr, "Synchronize arm found" + tag), sr.sp, "", "anchor-missing: loop over Synchronize(digests, target)", reason="anchor-missing"):
                D = SY + ".0[*]"
                loop = next((n for n in sr.nodes() if n["k"] == "for" and ctx.term(n["iter"]) == SY + ".0"), None)
                okl = loop is not None
                R.judge(okl, prefix + ".E2", key(sr, "all requested digests are considered" + tag), sr.sp, "", "no loop over all digests of the Synchronize command")
                if okl:
                    esc = [x for x in ir.walk(loop["body"], into_closures=False) if x["k"] in ("break", "ret")]
                    R.judge(not esc, prefix + ".E2", key(sr, "digest loop has no early exit" + tag), loop["sp"], "", "the digest loop can stop at %s" % [e["sp"] for e in esc])
                    pushes = [x for x in ir.walk(loop["body"], into_closures=False) if x["k"] == "mcall" and x["name"] == "push" and x["recv"]["k"] == "var" and ctx.term(x["args"][0]) == D]
                    waits = [x for x in ir.walk(loop["body"], into_closures=False) if x["k"] == "call" and wf is not None and wf.path in callee_paths(x)]
                    R.judge(len(pushes) == 1 and len(waits) == 1, prefix + ".E2", key(sr, "each new digest is recorded for the request and gets a waiter" + tag), loop["sp"],
                            "%d pushes, %d waiters" % (len(pushes), len(waits)), "%d record(s) / %d waiter(s) per digest" % (len(pushes), len(waits)))
                    for x in pushes + waits:
                        outer = flow.pathcond(loop)
                        oc = outer[1] if outer[0] == "and" else [outer]
                        pcx = flow.pathcond(x)
                        inner = And(*[c for c in (pcx[1] if pcx[0] == "and" else [pcx]) if c not in oc])
                        newd = Not(Atom("c:self.pending.contains_key(%s)" % D))
                        fwd, _ = implies(newd, inner)
                        R.judge(fwd, prefix + ".E2", key(sr, "every digest not already pending is requested/awaited (%s)%s" % (x.get("name") or "waiter", tag)), x["sp"], show(inner),
                                "a digest that is not pending is skipped under `%s`" % show(inner))
                    for w in waits:
                        a = [ctx.term(y) for y in w["args"]]
                        R.judge(a[0] == D and a[1] == "self.store" and a[2] == D, prefix + ".E2", key(sr, "waiter(digest, store, deliver = digest)" + tag), w["sp"], str(a[:3]), "waiter args %s" % a[:3])
                        par = sr.parents().get(id(w))
                        wp = [x for x in ir.walk(loop["body"]) if x["k"] == "mcall" and x["name"] == "push" and ctx.term(x["args"][0]) == ctx.term(w)]
                        from ..common import inner_cond
                        pushed = len(wp) == 1 and implies(inner_cond(flow, w, loop), inner_cond(flow, wp[0], loop))[0]
                        R.judge(pushed, prefix + ".E2", key(sr, "the waiter future is polled (pushed to the FuturesUnordered)" + tag), w["sp"], "", "the waiter future is created but never stored")
                    rec = pushes[0]["recv"] if pushes else None
                    sends = [x for x in sr.nodes() if x["k"] == "mcall" and SIMPLE + "send" in callee_paths(x)]
                    R.floor(prefix + ".E2", len(sends), 1, "first sync request" + tag)
                    for i, x in enumerate(sends):
                        addr, data = ctx.term(x["args"][0]), ctx.term(x["args"][1])
                        oka = addr == "self.committee.mempool_address(%s.1).Some" % SY
                        okd = rec is not None and data == "bincode::serialize(BatchRequest(%s,self.name))" % ctx.term(rec)
                        R.judge(oka and okd, prefix + ".E2", key(sr, "BatchRequest(missing, own name) -> mempool_address(target)" + tag, i), x["sp"], "%s <- %s" % (addr, data),
                                "the first sync request is `%s` to `%s`" % (data, addr))
            # waiter = notify_read(digest) then Some(deliver)
            wc = env.ctx(wf)
            nr = [x for x in wf.nodes() if x["k"] == "mcall" and "store::Store::notify_read" in callee_paths(x)]
            R.judge(len(nr) == 1 and wc.term(nr[0]["args"][0]) == "«Digest#0».to_vec()", prefix + ".E2", key(wf, "waiter waits on notify_read(the digest)" + tag), wf.sp,
                    str([wc.term(x["args"][0]) for x in nr]), "mempool waiter waits on %s" % [wc.term(x["args"][0]) for x in nr])

        # ---------------- E2 peer side: routing + helper
        mh = [f for f in prog.fns.values() if f.trait == "network::receiver::MessageHandler" and f.name == "dispatch" and "MempoolReceiverHandler" in f.path]
        hr = prog.fn(MHELP + "::run")
        if R.judge(len(mh) == 1 and hr is not None, prefix + ".E2", "anchors mempool dispatch / Helper::run" + tag, "", "", "anchor-missing", reason="anchor-missing"):
            h = mh[0]
            hc = env.ctx(h)
            hrx = [n for n in hr.nodes() if n["k"] == "mcall" and MPSC_RECV in callee_paths(n)]
            hch = set()
            for n in hrx:
                hch |= {cid for (cid, end) in W.ep(hr, n["recv"]) if end == "rx"}
            routed = [(n, p) for (f, n, cs, p) in W.send_sites if f is h and cs & hch]
            R.floor(prefix + ".E2", len(routed), 1, "BatchRequest routed to the helper" + tag)
            for i, (n, p) in enumerate(routed):
                pt = hc.term(p)
                pc = env.flow(h).pathcond(n)
                ok = bool(re.match(r"^\((?P<m>.+)\.BatchRequest\.0,(?P<m2>.+)\.BatchRequest\.1\)$", pt))
                arm = next((a for a in h.ancestors(n) if a["k"] == "match"), None)
                if ok and arm is not None:
                    from ..common import inner_cond
                    armbody = next((a_["body"] for a_ in arm["arms"] if any(x is n for x in ir.walk(a_["body"]))), None)
                    ic = inner_cond(env.flow(h), n, armbody, drop_ok_facts=True) if armbody is not None and armbody is not n else T
                    if not (armbody is n or any(x is n for x in ir.walk(armbody))):
                        ic = T
                    ok = ic == T
                    if not ok:
                        pt = "%s only under %s" % (pt, show(ic))
                R.judge(ok, prefix + ".E2", key(h, "BatchRequest(missing, requestor) forwarded to the helper" + tag, i), n["sp"], pt, "helper receives `%s`" % pt)
            c = env.ctx(hr)
            rq = None
            for n in hr.nodes():
                if n["k"] == "while" and n["c"]["k"] == "let":
                    rq = c.term(n["c"]["init"]) + ".Some"
            loops = [n for n in hr.nodes() if n["k"] == "for"]
            okl = rq is not None and len(loops) == 1 and c.term(loops[0]["iter"]) == rq + ".0"
            R.judge(okl, prefix + ".E2", key(hr, "helper serves every requested digest" + tag), hr.sp, str([c.term(l["iter"]) for l in loops]), "helper loops over %s" % [c.term(l["iter"]) for l in loops])
            if okl:
                esc = [x for x in ir.walk(loops[0]["body"], into_closures=False) if x["k"] in ("break", "ret")]
                R.judge(not esc, prefix + ".E2", key(hr, "helper loop has no early exit" + tag), loops[0]["sp"], "", "a missing digest ends the reply loop at %s" % [e["sp"] for e in esc])
                reads = [x for x in ir.walk(loops[0]["body"]) if x["k"] == "mcall" and "store::Store::read" in callee_paths(x)]
                sends = [x for x in ir.walk(loops[0]["body"]) if x["k"] == "mcall" and any(p.startswith("network::") for p in callee_paths(x))]
                okr = len(reads) == 1 and c.term(reads[0]["args"][0]) == rq + ".0[*].to_vec()"
                R.judge(okr, prefix + ".E2", key(hr, "reads the store under the requested digest" + tag), loops[0]["sp"], str([c.term(x["args"][0]) for x in reads]), "helper reads %s" % [c.term(x["args"][0]) for x in reads])
                oks = okr and len(sends) == 1 and SIMPLE + "send" in callee_paths(sends[0]) and c.term(sends[0]["args"][0]) == "self.committee.mempool_address(%s.1).Some" % rq \
                    and c.term(sends[0]["args"][1]) == c.term(reads[0]) + ".Ok.Some"
                R.judge(oks, prefix + ".E2", key(hr, "replies with the stored bytes, unchanged, to mempool_address(requester)" + tag), loops[0]["sp"],
                        str([(c.term(x["args"][0]), c.term(x["args"][1])) for x in sends])[:260], "helper replies %s" % [(c.term(x["args"][0]), c.term(x["args"][1])) for x in sends])
                if sends:
                    pc = env.flow(hr).pathcond(sends[0])
                    outer = env.flow(hr).pathcond(loops[0])
                    oc = outer[1] if outer[0] == "and" else [outer]
                    inner = And(*[x for x in (pc[1] if pc[0] == "and" else [pc]) if x not in oc])
                    G = c.term(reads[0]) if reads else "?"
                    hit = And(Atom("ok(%s)" % G), Atom("some(%s.Ok)" % G))
                    fwd, _ = implies(hit, inner)
                    R.judge(fwd, prefix + ".E2", key(hr, "every stored batch that is requested is sent" + tag), sends[0]["sp"], show(inner), "a stored batch is sent only under `%s`" % show(inner))
            # what Processors store is a serialized MempoolMessage (so the raw reply parses at the requester): C11.B3/B4
            from . import c11
            aux2 = _Aux()
            try:
                c11.rules({cfg: prog}, aux2)
            except Exception as e:
                aux2.fail("C11.B4", "crash", "", "C11 rules crashed: %r" % e)
            k = 0
            for r in aux2.rules:
                if r["rule"] in ("C11.B3", "C11.B4") and ("serialized batch is what is broadcast" in r["key"] or "peer batch forwarded" in r["key"] or "stored under" in r["key"] or "batch message =" in r["key"]):
                    k += 1
                    (R.ok if r["ok"] else R.fail)(prefix + ".E2", r["rule"] + ":" + r["key"].split("|", 1)[1], r["loc"], r["detail"])
            R.floor(prefix + ".E2", k, 4, "stored value = serialized MempoolMessage::Batch, keyed by its hash (C11.B3/B4)" + tag)

        # ---------------- E3 retry
        if sr is not None:
            ctx = env.ctx(sr)
            flow = env.flow(sr)
            sel = next((n for n in sr.nodes() if n["k"] == "select"), None)
            tb = None
            if sel is not None:
                for b in sel["branches"]:
                    if b.get("fut") is not None and not any(x["k"] == "mcall" and (MPSC_RECV in callee_paths(x) or x["name"] == "next") for x in ir.walk(b["fut"])):
                        tb = b
            if R.judge(tb is not None, prefix + ".E3", key(sr, "timer arm found" + tag), sr.sp, "", "anchor-missing", reason="anchor-missing"):
                body = tb["body"]
                fl = [n for n in ir.walk(body) if n["k"] == "for" and ctx.term(n["iter"]) == "self.pending"]
                R.judge(len(fl) == 1, prefix + ".E3", key(sr, "retry scan over all pending digests" + tag), body["sp"], "", "no loop over self.pending in the timer arm")
                rec = None
                if fl:
                    pushes = [x for x in ir.walk(fl[0]["body"]) if x["k"] == "mcall" and x["name"] == "push" and ctx.term(x["args"][0]) == "self.pending[*].0"]
                    overdue = None
                    for c_ in [n for n in ir.walk(fl[0]["body"]) if n["k"] == "if"]:
                        cc = c_["c"]
                        if cc["k"] == "bin" and cc["op"] in ("<", "<=", ">", ">="):
                            lo, hi = (cc["l"], cc["r"]) if cc["op"] in ("<", "<=") else (cc["r"], cc["l"])
                            lt_ = ctx.term(lo)
                            if "self.pending[*].1.2" in lt_ and "self.sync_retry_delay" in lt_ and "self.pending" not in ctx.term(hi):
                                overdue = cmp_formula("<", lt_, ctx.term(hi))
                    ok = len(pushes) == 1 and overdue is not None
                    why = "no `timestamp + sync_retry_delay < now` test / no record of overdue digests"
                    if ok:
                        rec = pushes[0]["recv"]
                        outer = flow.pathcond(fl[0])
                        oc = outer[1] if outer[0] == "and" else [outer]
                        pcb = flow.pathcond(pushes[0])
                        inner = And(*[c for c in (pcb[1] if pcb[0] == "and" else [pcb]) if c not in oc])
                        fwd, _ = implies(overdue, inner)
                        bwd, _ = implies(inner, Or(overdue, cmp_formula("==", *_cmp_terms(overdue))))
                        ok = fwd and bwd
                        why = "overdue digests are recorded under `%s` (required: exactly `%s`)" % (show(inner), show(overdue))
                    R.judge(ok, prefix + ".E3", key(sr, "every digest pending longer than sync_retry_delay is re-requested, and only those" + tag), fl[0]["sp"],
                            show(overdue) if overdue is not None else "", why)
                lb = [x for x in ir.walk(body) if x["k"] == "mcall" and any(p.startswith(SIMPLE) and p.rsplit("::", 1)[-1] in ("lucky_broadcast", "broadcast") for p in callee_paths(x))]
                R.floor(prefix + ".E3", len(lb), 1, "retry broadcast" + tag)
                for i, x in enumerate(lb):
                    a = [ctx.term(y) for y in x["args"]]
                    okb = a[0].startswith("self.committee.broadcast_addresses(self.name)") and rec is not None and a[1] == "bincode::serialize(BatchRequest(%s,self.name))" % ctx.term(rec)
                    if x["name"] == "lucky_broadcast":
                        okb = okb and a[2] == "self.sync_retry_nodes"
                    R.judge(okb, prefix + ".E3", key(sr, "BatchRequest(overdue, own name) to (sync_retry_nodes of) the other authorities" + tag, i), x["sp"], str(a)[:260], "retry sends %s" % a)
                    outer = flow.pathcond(body)
                    oc = outer[1] if outer[0] == "and" else [outer]
                    pcb = flow.pathcond(x)
                    inner = And(*[c for c in (pcb[1] if pcb[0] == "and" else [pcb]) if c not in oc and not all(a_.startswith(("ok(", "some(")) for a_ in atoms_of(c))])
                    need = Not(Atom("empty(%s)" % ctx.term(rec))) if rec is not None else T
                    fwd, _ = implies(need, inner)
                    R.judge(fwd, prefix + ".E3", key(sr, "the retry is sent whenever something is overdue" + tag, i), x["sp"], show(inner), "retry broadcast only under `%s`" % show(inner))
                # the age of a request is measured from its registration: nothing in the timer arm may refresh it
                muts = [x for x in ir.walk(body) if (x["k"] in ("assign", "assignop") and "self.pending" in ctx.term(x["l"])) or
                        (x["k"] == "mcall" and x["name"] in ("insert", "entry", "get_mut", "values_mut", "iter_mut", "retain", "clear", "remove") and ctx.term(x["recv"]) == "self.pending")]
                R.judge(not muts, prefix + ".E3", key(sr, "the retry scan does not modify the pending table" + tag), body["sp"], "",
                        "the timer arm modifies self.pending at %s: a request whose timestamp is refreshed on every tick never becomes older than "
                        "sync_retry_delay and is never retried" % [x["sp"] for x in muts])
                resets = [n for n in sure_subnodes(body) if n["k"] == "mcall" and n["name"] == "reset"]
                R.judge(bool(resets), prefix + ".E3", key(sr, "retry timer re-armed on every path" + tag), body["sp"], "", "the timer arm can leave without re-arming the retry timer")

        # ---------------- E6 the best-effort sender the sync path relies on
        from ..common import simple_sender_rules
        simple_sender_rules(prog, env, R, prefix + ".E6", tag)

        # ---------------- E3b pending requests are garbage-collected only when gc_depth rounds old
        if sr is not None:
            ctx = env.ctx(sr)
            flow = env.flow(sr)
            rem = [n for n in sr.nodes() if n["k"] == "mcall" and n["name"] in ("retain", "clear", "drain") and ctx.term(n["recv"]) == "self.pending"]
            R.floor(prefix + ".E3", len(rem), 1, "garbage collection of pending batch requests" + tag)
            for i, n in enumerate(rem):
                pc = flow.pathcond(n)
                need = Not(cmp_formula("<", "self.round", "self.gc_depth"))
                okg, _ = implies(pc, need)
                bound = None
                clo = n["args"][0] if n["args"] and n["args"][0]["k"] == "closure" else None
                bt = ctx.term(clo["body"]) if clo is not None else ""
                gc_vars = [x for x in sr.nodes() if x["k"] == "slet" and x["pat"].get("k") == "pbind" and x["pat"].get("name", "").startswith("gc") and "init" in x]
                okb = any(ctx.term(x["init"]) == "(self.round-self.gc_depth)" for x in gc_vars)
                R.judge(okg and okb, prefix + ".E3", key(sr, "requests are dropped only when older than gc_depth rounds" + tag, i), n["sp"],
                        "%s ; bound %s" % (show(pc), [ctx.term(x["init"]) for x in gc_vars]),
                        "pending batch requests are garbage-collected under `%s` with bound %s (required: only when round >= gc_depth, bound = round - "
                        "gc_depth): young requests are cancelled and never retried" % (show(pc), [ctx.term(x["init"]) for x in gc_vars]))

        from ..common import fresh_timer_arms
        fta = fresh_timer_arms([f for f in prog.fns.values() if f.self_ty == MSYNC and not f.derived])
        for (f_, n_, b_), i in ordinal_keys(fta, lambda x: x[0].path):
            R.fail(prefix + ".E3", key(f_, "retry timer is created outside the loop" + tag, i), n_["sp"],
                   "the retry timer is created in the select! arm itself (`%s`): every sync command or delivered batch restarts it, so a "
                   "lost request is never retried under load" % ir.pp(b_["fut"], maxlen=80))
        R.ok(prefix + ".E3", "no per-iteration retry timer" + tag + " (%d found)" % len(fta), "", "")
        # ---------------- E4 one store
        nn = prog.fn("node::node::Node::new")
        if R.judge(nn is not None, prefix + ".E4", "anchor Node::new" + tag, "", "", "anchor-missing", reason="anchor-missing"):
            c = env.ctx(nn)
            ms = [n for n in nn.nodes() if n["k"] == "call" and "mempool::mempool::Mempool::spawn" in callee_paths(n)]
            cs = [n for n in nn.nodes() if n["k"] == "call" and "consensus::consensus::Consensus::spawn" in callee_paths(n)]
            ok = len(ms) == 1 and len(cs) == 1
            st_m = [c.term(a) for a in ms[0]["args"] if "store::Store" in (a.get("ty") or "")] if ok else []
            st_c = [c.term(a) for a in cs[0]["args"] if "store::Store" in (a.get("ty") or "")] if ok else []
            R.judge(ok and st_m == st_c and len(st_m) == 1 and st_m[0].startswith("store::Store::new("), prefix + ".E4", key(nn, "mempool and consensus get clones of the same Store" + tag), nn.sp,
                    "%s / %s" % (st_m, st_c), "Mempool::spawn gets %s, Consensus::spawn gets %s" % (st_m, st_c))
            news = [n for n in nn.nodes() if n["k"] == "call" and "store::Store::new" in callee_paths(n)]
            R.judge(len(news) == 1, prefix + ".E4", key(nn, "a single Store is created" + tag), nn.sp, str(len(news)), "%d stores are created" % len(news))

        # ---------------- E5 helper totality
        PA = PanicAnalysis(prog, cfg, ["node::node::Node::new"], env, W)
        mine = [s for s in PA.sites if s.root.startswith(MHELP + "::")]
        for s in mine:
            d = PA.discharge(s)
            if d is None and PA._send_under(s) is not None:
                continue
            R.judge(d is not None, prefix + ".E5", "%s|%s%s" % (s.root, s.sig, tag), s.sp, "%s: %s" % d if d else "", "mempool helper can panic: %s" % s.sig)
        if hr is not None:
            c = env.ctx(hr)
            adr = [n for n in hr.nodes() if n["k"] == "mcall" and n["name"] == "mempool_address"]
            for i, n in enumerate(adr):
                par = hr.parents().get(id(n))
                # consumed by a construct that handles None (match / if let / let-else), not by unwrap/expect/index
                okm = par is not None and (par["k"] in ("match", "let") or (par["k"] == "slet" and "els" in par)
                                           or (par["k"] == "mcall" and par["name"] in ("is_some", "is_none", "map", "and_then", "ok_or", "ok_or_else")))
                R.judge(okm, prefix + ".E5", key(hr, "unknown requesters are skipped, not unwrapped" + tag, i), n["sp"], par["k"] if par else "", "requester address lookup is consumed by `%s`" % (par["k"] if par else None))


def check(P, R, tier):
    R.explanation = EXPLANATION
    R.assumptions = ["eventual delivery/commit (first sentence) is not decided", "SimpleSender is best effort: a single lost request is covered only by the retry arm (E3)",
                     "store semantics are C16's"]
    rules(P, R)
    from ..common import fold
    # "every transaction submitted to any honest node ends up in a batch": the batch maker keeps every transaction, seals on
    # size or timer (also a batch of empty transactions), and every batch is stored and announced (C11.B1-B5)
    fold(R, P, "c11", ("C11.B1", "C11.B2", "C11.B3", "C11.B4", "C11.B5"), "C13.E7", 50)
    # "... and then resumes processing that block instead of stalling": the payload waiter and the synchronizers park on
    # Store::notify_read, so every waiter registered for a key must be woken by the write of that key, whatever the order in
    # which the write and the registration reach the store task (C16.T2/T3/T4)
    fold(R, P, "c16", ("C16.T2", "C16.T3", "C16.T4"), "C13.E8", 30)
    # a block that was resumed (its batch arrived) is stored whatever round the node is in by then, or the blocks that were
    # received meanwhile and parked on it never resume (C07.Y4)
    fold(R, P, "c07", ("C07.Y4",), "C13.E9", 6)
    # batches travel as single frames: the receiving side must accept every frame the sending side can write (C14.F8)
    fold(R, P, "c14", ("C14.F8",), "C13.E10", 2)
