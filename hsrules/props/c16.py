"""C16 — Store: reads see the latest write; notify-reads never miss a write (structural clauses of the store task)."""
import re

from .. import ir
from ..analysis import And, Atom, Not, Or, T, atoms_of, implies, show, diverges
from ..common import Env, call_args, callee_paths, key, ordinal_keys, MPSC_SEND, MPSC_RECV
from ..paths import enum_paths, TooManyPaths
from ..wiring import Wiring, ONESHOT_SEND, SPAWN

LEVEL = "other"
CONFIGS = ("default", "benchmark")
STORE = "store::Store"
CMD = "store::StoreCommand"
EXPLANATION = (
    "Static rules on store/src/lib.rs: (T1) the RocksDB handle and the obligations map are locals of Store::new that are used only "
    "inside the single spawned task; (T2) that task is `while let Some(cmd) = rx.recv().await { match cmd {..} }` whose body contains "
    "no await, so commands take effect one at a time in channel order and the miss-then-park step of NotifyRead cannot be "
    "interleaved with a Write; every public method sends exactly one command on the one mpsc channel; (T3) the Write arm calls "
    "db.put(key, value) before it removes obligations[key] (same key) and answers EVERY removed waiter with the written value; "
    "(T4) the NotifyRead arm reads db.get(key), parks the reply handle under that same key in a multi-waiter collection exactly "
    "when the read is Ok(None), and otherwise answers at once with the value read; (T5) the Read arm answers with db.get of the "
    "requested key; (T6) on every path of every arm the reply handle is consumed exactly once (answered or parked); (T7) "
    "Store::new opens the database at the caller's path. RocksDB's own get-after-put and durability are trusted.")


def rules(P, R, prefix="C16"):
    for cfg, prog in P.items():
        env = Env(prog)
        W = Wiring(prog, env)
        tag = "" if cfg == "default" else "@" + cfg
        new = prog.fn(STORE + "::new")
        if not R.judge(new is not None, prefix + ".T1", "anchor Store::new" + tag, "", "", "anchor-missing", reason="anchor-missing"):
            continue
        ctx = env.ctx(new)
        spawns = [n for n in new.nodes() if n["k"] == "call" and n.get("fn") == SPAWN and n["args"] and n["args"][0]["k"] == "closure"]
        if not R.judge(len(spawns) == 1, prefix + ".T1", "exactly one store task" + tag, new.sp, str(len(spawns)), "%d tasks are spawned by Store::new" % len(spawns)):
            continue
        clo = spawns[0]["args"][0]
        inside = set(id(x) for x in ir.walk(clo))
        # ---------------- T1 confinement
        dbv = obv = None
        for n in new.nodes():
            if n["k"] == "slet" and n["pat"].get("k") == "pbind" and "init" in n:
                t = n["pat"].get("ty") or ""
                if "rocksdb::" in t and "DB" in t:
                    dbv = n["pat"]
                elif "HashMap" in t and "oneshot::Sender" in t:
                    obv = n["pat"]
        if not R.judge(dbv is not None and obv is not None, prefix + ".T1", "database handle and obligations map are locals of Store::new" + tag, new.sp, "",
                       "anchor-missing: rocksdb handle / HashMap of oneshot senders in Store::new", reason="anchor-missing"):
            continue
        for v, what in ((dbv, "database handle"), (obv, "obligations map")):
            uses = [n for n in new.nodes() if n["k"] == "var" and n["id"] == v["id"]]
            out = [n for n in uses if id(n) not in inside]
            R.judge(uses and not out, prefix + ".T1", key(new, "%s used only by the store task%s" % (what, tag)), v.get("sp", new.sp), "%d uses" % len(uses),
                    "%s is used outside the store task at %s" % (what, [n["sp"] for n in out]))
        # multi-waiter collection
        oty = obv.get("ty") or ""
        R.judge(bool(re.search(r"HashMap<.*(VecDeque|Vec)<tokio::sync::oneshot::Sender", oty)), prefix + ".T4", key(new, "obligations hold a queue of waiters per key" + tag),
                obv.get("sp", new.sp), oty[:140], "obligations map has type `%s`: at most one waiter per key can be remembered, a second notify_read on the "
                "same key drops (or is dropped by) the first" % oty[:200])
        sfields = (prog.structs.get(STORE) or {"fields": []})["fields"]
        struct_other = [fl for fl in sfields if "mpsc" not in fl["ty"] or "Sender" not in fl["ty"]]
        R.judge(len(sfields) == 1 and not struct_other, prefix + ".T1", "Store handle = the command channel only (no per-handle state)" + tag, "", str([f["name"] for f in sfields]),
                "Store handle has fields %s: state kept in a handle (cache, database reference) is invisible to writes made through other handles" % [(f["name"], f["ty"][:40]) for f in sfields])

        # ---------------- T2 sequential command loop
        body = clo["body"]
        tail = body
        while tail["k"] == "block":
            ss = tail.get("stmts", []) + ([tail["expr"]] if "expr" in tail else [])
            if len(ss) != 1:
                break
            tail = ss[0]
        okloop = tail["k"] == "while" and tail["c"]["k"] == "let" and any(x["k"] == "mcall" and MPSC_RECV in callee_paths(x) for x in ir.walk(tail["c"]["init"]))
        if not R.judge(okloop, prefix + ".T2", key(new, "task body is a single `while let Some(cmd) = rx.recv().await` loop" + tag), clo["sp"], tail["k"],
                       "the store task is not a single receive loop (found `%s`) (undecidable-shape)" % tail["k"], reason="undecidable-shape"):
            continue
        loop = tail
        aw = [x for x in ir.walk(loop["body"]) if x["k"] in ("await", "select")]
        R.judge(not aw, prefix + ".T2", key(new, "no await inside the command loop body" + tag), loop["sp"], "",
                "the command loop awaits at %s: another command can take effect between a check and its action (lost wake-up / stale read)" % [x["sp"] for x in aw])
        sp2 = [x for x in ir.walk(loop["body"]) if x["k"] == "call" and x.get("fn") == SPAWN]
        R.judge(not sp2, prefix + ".T2", key(new, "commands are not handled in sub-tasks" + tag), loop["sp"], "", "command handling is spawned at %s" % [x["sp"] for x in sp2])
        m = next((x for x in ir.walk(loop["body"]) if x["k"] == "match" and (x["scrut"].get("ty") or "").endswith("StoreCommand")), None)
        if not R.judge(m is not None, prefix + ".T2", key(new, "match on StoreCommand" + tag), loop["sp"], "", "anchor-missing", reason="anchor-missing"):
            continue
        CT = ctx.term(m["scrut"])
        arms = {}
        for a in m["arms"]:
            p = a["pat"]
            if p["k"] in ("ptstruct", "pstruct") and p["path"].startswith(CMD + "::"):
                arms[p["path"].rsplit("::", 1)[-1]] = a
        en = prog.enums.get(CMD)
        allv = [v["name"] for v in en["variants"]] if en else []
        R.judge(set(arms) == set(allv) and {"Write", "Read", "NotifyRead"} <= set(arms), prefix + ".T2", key(new, "every command variant has an arm" + tag), m["sp"], str(sorted(arms)),
                "command variants %s, arms %s" % (allv, sorted(arms)))
        # public API: one command per call
        for meth, var, nargs in (("write", "Write", 2), ("read", "Read", 2), ("notify_read", "NotifyRead", 2)):
            f = prog.fn(STORE + "::" + meth)
            if not R.judge(f is not None, prefix + ".T2", "anchor Store::%s%s" % (meth, tag), "", "", "anchor-missing", reason="anchor-missing"):
                continue
            c2 = env.ctx(f)
            ss = [n for n in f.nodes() if n["k"] == "mcall" and MPSC_SEND in callee_paths(n)]
            okm = len(ss) == 1 and c2.term(ss[0]["recv"]) == "self.channel" and c2.term(ss[0]["args"][0]).startswith(var + "(")
            det = c2.term(ss[0]["args"][0]) if ss else ""
            if okm and meth == "write":
                okm = det == "Write(«Vec<u8>#0»,«Vec<u8>#1»)"
            elif okm:
                okm = det == "%s(«Vec<u8>»,tokio::sync::oneshot::channel().0)" % var
                tl = f.body.get("expr") if f.body["k"] == "block" else None
                okm = okm and tl is not None and c2.term(tl) == "tokio::sync::oneshot::channel().1"
            if okm:
                pcs = env.flow(f).pathcond(ss[0])
                okm = all(a.startswith(("ok(", "some(")) for a in atoms_of(pcs))
                if not okm:
                    det = "%s only under %s" % (det, show(pcs))
            R.judge(okm, prefix + ".T2", key(f, "sends exactly one %s command (and awaits its own reply)%s" % (var, tag)), f.sp, det,
                    "Store::%s does not send exactly one %s(key, ..) command and return that command's reply: %s" % (meth, var, det))

        def arm_paths(a):
            try:
                return enum_paths(ctx, a["body"])
            except TooManyPaths:
                return None

        # ---------------- T3 write wakes
        if "Write" in arms:
            a = arms["Write"]
            K, V = CT + ".Write.0", CT + ".Write.1"
            puts = [x for x in ir.walk(a["body"]) if x["k"] == "mcall" and x["name"] == "put" and ctx.term(x["recv"]).startswith("rocksdb::")]
            R.judge(len(puts) == 1 and [ctx.term(y) for y in puts[0]["args"]] == [K, V] and env.flow(new).pathcond(puts[0]) in (T,) or
                    (len(puts) == 1 and [ctx.term(y) for y in puts[0]["args"]] == [K, V] and not _inner_conds(env, new, a, puts[0])),
                    prefix + ".T3", key(new, "Write: db.put(key, value) unconditionally" + tag), a["body"]["sp"], str([ctx.term(y) for p in puts for y in p["args"]]),
                    "the Write arm does not unconditionally put (key, value) of the command: %s" % [ir.pp(p)[:80] for p in puts])
            rem = [x for x in ir.walk(a["body"]) if x["k"] == "mcall" and x["name"] in ("remove", "remove_entry", "get", "get_mut", "entry") and ctx.term(x["recv"]) == "local:" + obv["name"]]
            okr = len(rem) == 1 and rem[0]["name"] in ("remove", "remove_entry") and ctx.term(rem[0]["args"][0]) == K
            R.judge(okr, prefix + ".T3", key(new, "Write: waiters of the same key are removed" + tag), a["body"]["sp"], str([ir.pp(x)[:60] for x in rem]),
                    "the Write arm does not remove obligations[key of the write]: %s" % [ir.pp(x)[:80] for x in rem])
            if rem:
                ic = _inner_conds(env, new, a, rem[0])
                R.judge(not ic, prefix + ".T3", key(new, "Write: the wake-up lookup runs for every write" + tag), rem[0]["sp"], "",
                        "waiters of the written key are looked up only under `%s`: a write on the other branch leaves its notify_reads pending "
                        "for ever" % " && ".join(show(c) for c in ic))
            if puts and rem:
                doms = env.flow(new).dominators(rem[0])
                R.judge(any(d is puts[0] for d in doms), prefix + ".T3", key(new, "Write: put precedes the wake-up" + tag), rem[0]["sp"], "",
                        "waiters are woken before the value is written")
            sends = [x for x in ir.walk(a["body"]) if x["k"] == "mcall" and ONESHOT_SEND in callee_paths(x)]
            oks = len(sends) == 1 and ctx.term(sends[0]["args"][0]) == "Ok(%s)" % V
            R.judge(oks, prefix + ".T3", key(new, "Write: waiters receive the written value" + tag), a["body"]["sp"], str([ctx.term(s["args"][0]) for s in sends]),
                    "woken waiters receive %s instead of Ok(value written)" % [ctx.term(s["args"][0]) for s in sends])
            if sends:
                lp = next((x for x in new.ancestors(sends[0]) if x["k"] in ("while", "for", "loop")), None)
                inner_is_drain = False
                if lp is not None and lp is not loop:
                    if lp["k"] == "while" and lp["c"]["k"] == "let":
                        it = ctx.term(lp["c"]["init"])
                        inner_is_drain = bool(re.match(r"^local:\w+\.(pop_front|pop_back|pop)\(\)$", it)) and ctx.term(sends[0]["recv"]) == it + ".Some"
                    elif lp["k"] == "for":
                        inner_is_drain = ctx.term(sends[0]["recv"]).endswith("[*]")
                    esc = [x for x in ir.walk(lp["body"], into_closures=False) if x["k"] in ("break", "continue", "ret")]
                    inner_is_drain = inner_is_drain and not esc
                R.judge(inner_is_drain, prefix + ".T3", key(new, "Write: EVERY removed waiter is answered" + tag), sends[0]["sp"], "",
                        "the wake-up does not iterate over all removed waiters (only some notify_reads complete)")

        # ---------------- T4 notify-read
        if "NotifyRead" in arms:
            a = arms["NotifyRead"]
            K, S = CT + ".NotifyRead.0", CT + ".NotifyRead.1"
            gets = [x for x in ir.walk(a["body"]) if x["k"] == "mcall" and x["name"] == "get" and ctx.term(x["recv"]).startswith("rocksdb::")]
            okg = len(gets) == 1 and ctx.term(gets[0]["args"][0]) == K
            R.judge(okg, prefix + ".T4", key(new, "NotifyRead: reads the requested key once" + tag), a["body"]["sp"], str([ir.pp(g)[:60] for g in gets]),
                    "NotifyRead does not read exactly the requested key: %s" % [ir.pp(g)[:80] for g in gets])
            if okg:
                G = ctx.term(gets[0])
                paths = arm_paths(a)
                bad = []
                n_p = 0
                for p in (paths or []):
                    if p.exit == "panic":
                        continue
                    n_p += 1
                    parks = [e for e in p.events if e["k"] == "mcall" and e["name"] in ("push_back", "push", "insert") and ctx.term(e["args"][-1]) == S]
                    answers = [e for e in p.events if e["k"] == "mcall" and ONESHOT_SEND in callee_paths(e) and ctx.term(e["recv"]) == S]
                    miss = And(Atom("ok(%s)" % G), Not(Atom("some(%s.Ok)" % G)))
                    cond = p.cond()
                    is_miss, _ = implies(cond, miss)
                    is_hit, _ = implies(cond, Not(miss))
                    if len(parks) + len(answers) != 1:
                        bad.append("[%s]: handle consumed %d times" % (show(cond)[:80], len(parks) + len(answers)))
                        continue
                    if parks:
                        pk = parks[0]
                        t = ctx.term(pk)
                        okk = bool(re.match(r"^local:%s\.entry\(%s\)\.(or_insert_with\(.+\)|or_default\(\))\.(push_back|push)\(%s\)$" % (re.escape(obv["name"]), re.escape(K), re.escape(S)), t))
                        if not okk:
                            bad.append("parks with `%s` (required: obligations.entry(key).or_insert_with(..).push_back(sender), same key, appending)" % t[:160])
                        if not is_miss:
                            bad.append("[%s]: parks although the read is not known to be Ok(None)" % show(cond)[:100])
                    else:
                        if not is_hit:
                            bad.append("[%s]: answers at once although the key may be absent" % show(cond)[:100])
                        at = ctx.term(answers[0]["args"][0])
                        if not (at == G or at.startswith(G + ".map(")):
                            bad.append("answers with `%s`, not with the value read" % at[:100])
                R.judge(paths is not None and not bad and n_p >= 2, prefix + ".T4", key(new, "NotifyRead: park exactly on a miss (same key, appended), else answer with the value" + tag),
                        a["body"]["sp"], "%d paths" % n_p, "; ".join(bad)[:600] or "paths not enumerable")
                R.sample({"rule": prefix + ".T4", "read": G, "paths": n_p})

        # ---------------- T6b waiters are never discarded: the obligations map is only appended to (NotifyRead) and emptied per key (Write)
        omuts = [x for x in ir.walk(clo) if x["k"] == "mcall" and ctx.term(x["recv"]) == "local:" + obv["name"]]
        for x, i in ordinal_keys(omuts, lambda y: y["name"]):
            where = next((nm for nm, a in arms.items() if any(y is x for y in ir.walk(a["body"]))), None)
            ok_ = (x["name"] in ("remove", "remove_entry") and where == "Write") or (x["name"] == "entry" and where == "NotifyRead") or x["name"] in ("len", "is_empty", "contains_key", "get")
            R.judge(ok_, prefix + ".T6", key(new, "obligations.%s in the %s arm%s" % (x["name"], where, tag), i), x["sp"], "",
                    "obligations.%s(..) in the %s arm: parked notify-read waiters can be discarded without being answered" % (x["name"], where))

        # ---------------- T5 read
        if "Read" in arms:
            a = arms["Read"]
            K, S = CT + ".Read.0", CT + ".Read.1"
            sends = [x for x in ir.walk(a["body"]) if x["k"] == "mcall" and ONESHOT_SEND in callee_paths(x)]
            want = "rocksdb::db::DBCommon::open_default(«str»).get(%s)" % K
            ok5 = len(sends) == 1 and ctx.term(sends[0]["recv"]) == S and ctx.term(sends[0]["args"][0]).endswith(".get(%s)" % K) and not _inner_conds(env, new, a, sends[0])
            R.judge(ok5, prefix + ".T5", key(new, "Read: answers with db.get(requested key)" + tag), a["body"]["sp"], str([ctx.term(s["args"][0])[:100] for s in sends]),
                    "the Read arm answers %s" % [ctx.term(s["args"][0])[:120] for s in sends])

        # ---------------- T6 reply linearity in every arm
        for name, a in sorted(arms.items()):
            if name == "Write":
                continue
            S = "%s.%s.1" % (CT, name)
            paths = arm_paths(a)
            bad = []
            for p in (paths or []):
                if p.exit == "panic":
                    continue
                uses = [e for e in p.events if e["k"] == "mcall" and ((ONESHOT_SEND in callee_paths(e) and ctx.term(e["recv"]) == S) or
                                                                     (e["name"] in ("push_back", "push", "insert") and e["args"] and ctx.term(e["args"][-1]) == S))]
                if len(uses) != 1 or p.exit != "fall":
                    bad.append("[%s] uses=%d exit=%s" % (show(p.cond())[:80], len(uses), p.exit))
            R.judge(paths is not None and not bad, prefix + ".T6", key(new, "%s: reply handle consumed exactly once on every path%s" % (name, tag)), a["body"]["sp"],
                    "%d paths" % len(paths or []), "; ".join(bad)[:400])

        # ---------------- T7 open at the caller's path
        op = [n for n in new.nodes() if n["k"] == "call" and "open" in n.get("fn", "") and n["fn"].startswith("rocksdb::")]
        R.judge(len(op) == 1 and ctx.term(op[0]["args"][0]) == "«str»" and id(op[0]) not in inside, prefix + ".T7", key(new, "database opened at the caller's path" + tag),
                new.sp, str([ctx.term(o) for o in op]), "Store::new opens %s" % [ctx.term(o) for o in op])
        dels = prog.call_sites(lambda p, i: p.startswith("rocksdb::") and ("delete" in p or "destroy" in p))
        R.judge(not dels, prefix + ".T7", "nothing is ever deleted" + tag, "", "", "store entries can be deleted at %s" % [n["sp"] for f, n in dels])


def _inner_conds(env, fn, arm, node):
    """Conditions on `node` that arise inside the arm body (excluding the arm selection itself)."""
    flow = env.flow(fn)
    pc = flow.pathcond(node)
    outer = flow.pathcond(arm["body"])
    oc = outer[1] if outer[0] == "and" else [outer]
    inner = [c for c in (pc[1] if pc[0] == "and" else [pc]) if c not in oc and c != T]
    return inner


def check(P, R, tier):
    R.explanation = EXPLANATION
    R.assumptions = ["RocksDB get-after-put consistency and durability across reopen", "tokio mpsc FIFO; oneshot semantics",
                     "a dropped db.put error (disk fault) is outside the property's quantifier"]
    R.note("observed, not armed: `let _ = db.put(..)` discards a storage error; no failing history exists without a disk fault.")
    rules(P, R)
