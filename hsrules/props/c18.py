"""C18 — Signatures and key encodings: structure of the crypto wrapper (ed25519 semantics themselves are not decided)."""
import re

from .. import ir
from ..analysis import And, Atom, Not, T, atoms_of, implies, show
from ..common import Env, call_args, callee_paths, key, ordinal_keys
from ..panics import PanicAnalysis
from ..wiring import Wiring
from .c02 import _Aux

LEVEL = "other"
CONFIGS = ("default", "benchmark")
KEYS = (("crypto::PublicKey", 32), ("crypto::SecretKey", 64))
EXPLANATION = (
    "Static rules on the crypto wrapper: (X1) for PublicKey and SecretKey the text encoder encodes the whole key array, the decoder "
    "rebuilds the array from the first N decoded bytes with the same N as the field type ([u8; 32] / [u8; 64]) and reports wrong "
    "lengths as errors, Serialize uses the encoder and Deserialize the decoder of the same type; (X2) the decoders and "
    "Digest::try_from contain no undischarged panic site (engine shared with C15); (X3) Signature::new stores bytes 0..32 and "
    "32..64 of the dalek signature and flatten() concatenates them in that order, so flatten(new(..)) is the original 64 bytes; "
    "(X4) verify/verify_batch hand dalek the digest bytes, the flattened signature and the key decoded from the claimed public key, "
    "one triple per vote (C04.S3); (X5) the key/committee/parameter files are written and read with serde_json of the same type, and "
    "the exported structs derive both directions without skip/with/default field attributes. That ed25519 verifies exactly the "
    "signatures made with the matching key is a property of ed25519-dalek and is not decided here.")


def tail_expr(f):
    b = f.body
    while b["k"] == "block" and "expr" in b and not b.get("stmts"):
        b = b["expr"]
    if b["k"] == "block":
        return b.get("expr")
    return b


def rules(P, R, prefix="C18"):
    for cfg, prog in P.items():
        env = Env(prog)
        tag = "" if cfg == "default" else "@" + cfg
        # ---------------- X1 codec pairing
        for ty, width in KEYS:
            st = prog.structs.get(ty)
            enc = prog.fn(ty + "::encode_base64")
            dec = prog.fn(ty + "::decode_base64")
            if not R.judge(st is not None and enc is not None and dec is not None, prefix + ".X1", "anchors %s codec%s" % (ty, tag), "", "", "anchor-missing", reason="anchor-missing"):
                continue
            fty = st["fields"][0]["ty"] if st["fields"] else ""
            m = re.match(r"^\[u8; (\d+)\]$", fty)
            N = int(m.group(1)) if m else None
            R.judge(N == width, prefix + ".X1", "%s is a %d-byte array%s" % (ty, width, tag), st["sp"], fty, "%s holds `%s`" % (ty, fty))
            et = env.ctx(enc).term(tail_expr(enc))
            R.judge(et == "base64::encode::encode(self.0[RangeFull{}])" or et == "base64::encode::encode(self.0)", prefix + ".X1", key(enc, "encodes all bytes of the key" + tag), enc.sp, et,
                    "%s::encode_base64 encodes `%s`, not the whole key array" % (ty, et))
            dctx = env.ctx(dec)
            lits = [n for n in dec.nodes() if n["k"] in ("call", "ctor", "struct") and (n.get("fn") == ty or n.get("path") == ty)]
            tries = [n for n in dec.nodes() if n["k"] == "mcall" and n["name"] == "try_into"]
            okd = False
            det = ""
            for t in tries:
                tt = dctx.term(t)
                det = tt
                mm = re.match(r"^base64::decode::decode\(«str»\)(\.get\(RangeTo\{end:(\d+)\}\)(\.ok_or\(\w+\))?|\[RangeTo\{end:(\d+)\}\])\.try_into\(\)$", tt)
                if mm:
                    n_ = int(mm.group(2) or mm.group(4))
                    want = re.search(r"Result<\[u8; (\d+)\]", t.get("ty") or "")
                    okd = n_ == N and want is not None and int(want.group(1)) == N
            R.judge(okd, prefix + ".X1", key(dec, "decodes exactly the first %s bytes into the key array%s" % (N, tag)), dec.sp, det,
                    "%s::decode_base64 builds the key from `%s` (required: first %s decoded bytes -> [u8; %s])" % (ty, det, N, N))
            # result is the struct built from that array
            oks = any(n["k"] in ("ctor", "call") and (n.get("path") == ty or n.get("fn") == ty) for n in dec.nodes())
            R.judge(oks, prefix + ".X1", key(dec, "returns Self(array)" + tag), dec.sp, "", "decode_base64 does not construct %s" % ty)
            ser = next((f for f in prog.fns.values() if f.self_ty == ty and f.trait and f.trait.endswith("ser::Serialize") and f.name == "serialize"), None)
            de = next((f for f in prog.fns.values() if f.self_ty == ty and f.trait and f.trait.endswith("de::Deserialize") and f.name == "deserialize"), None)
            if R.judge(ser is not None and de is not None, prefix + ".X1", "anchors %s serde impls%s" % (ty, tag), "", "", "anchor-missing", reason="anchor-missing"):
                s_t = env.ctx(ser).term(tail_expr(ser))
                R.judge(bool(re.match(r"^«S»\.serialize_str\(self\.encode_base64\(\)\)$", s_t)), prefix + ".X1", key(ser, "Serialize = serialize_str(encode_base64)" + tag), ser.sp, s_t,
                        "%s serializes as `%s`" % (ty, s_t))
                dcalls = [n for n in de.nodes() if n["k"] == "call" and ty + "::decode_base64" in callee_paths(n)]
                d_ok = len(dcalls) == 1 and "deserialize(«D»)" in env.ctx(de).term(dcalls[0]["args"][0])
                tl = env.ctx(de).term(tail_expr(de))
                R.judge(d_ok and "decode_base64" in tl, prefix + ".X1", key(de, "Deserialize = decode_base64(String::deserialize(..))" + tag), de.sp, tl[:160],
                        "%s deserializes via `%s`" % (ty, tl[:200]))

        # ---------------- X2 decoders are total (no undischarged panic site)
        roots = ["crypto::PublicKey::decode_base64", "crypto::SecretKey::decode_base64", "<crypto::Digest as core::convert::TryFrom<&[u8]>>::try_from",
                 "crypto::PublicKey::encode_base64", "crypto::SecretKey::encode_base64", "crypto::Signature::flatten", "crypto::Signature::verify", "crypto::Signature::verify_batch"]
        present = [r for r in roots if r in prog.fns]
        R.floor(prefix + ".X2", len(present), 6, "codec functions present" + tag)
        PA = PanicAnalysis(prog, cfg, present, env, Wiring(prog, env))
        PA.all_reachable = True
        mine = [s for s in PA.sites if s.root in present or s.root.startswith("<crypto::")]
        for s in mine:
            d = PA.discharge(s)
            R.judge(d is not None, prefix + ".X2", "%s|%s%s" % (s.root, s.sig, tag), s.sp, "%s: %s" % d if d else "",
                    "codec function can panic: %s (%s %s)" % (s.sig, s.kind, s.what))
        for r in present[:3]:
            f = prog.fns[r]
            has_idx = [n for n in f.nodes() if n["k"] == "index"]
            R.judge(not has_idx or all(PA.static_len(f, n["e"]) is not None for n in has_idx), prefix + ".X2", key(f, "no slicing of input-length data" + tag), f.sp,
                    "", "decoder indexes a value whose length is input-controlled at %s" % [n["sp"] for n in has_idx])

        # ---------------- X3 signature layout
        sn = prog.fn("crypto::Signature::new")
        fl = prog.fn("crypto::Signature::flatten")
        if R.judge(sn is not None and fl is not None, prefix + ".X3", "anchors Signature::new/flatten" + tag, "", "", "anchor-missing", reason="anchor-missing"):
            ctx = env.ctx(sn)
            lits = [n for n in sn.nodes() if n["k"] == "struct" and n["path"] == "crypto::Signature"]
            R.floor(prefix + ".X3", len(lits), 1, "Signature literal" + tag)
            for i, lit in enumerate(lits):
                fm = {f_["name"]: ctx.term(f_["e"]) for f_ in lit["fields"]}
                rng = {}
                bases = set()
                for fname, t in fm.items():
                    m1 = re.match(r"^(?P<b>.+)\[RangeTo\{end:(?P<e>\d+)\}\]\.try_into\(\)$", t)
                    m2 = re.match(r"^(?P<b>.+)\[Range\{start:(?P<s>\d+),end:(?P<e>\d+)\}\]\.try_into\(\)$", t)
                    m3 = re.match(r"^(?P<b>.+)\[RangeFrom\{start:(?P<s>\d+)\}\]\.try_into\(\)$", t)
                    mm = m1 or m2 or m3
                    if mm:
                        gd = mm.groupdict()
                        rng[fname] = (int(gd.get("s") or 0), int(gd["e"]) if gd.get("e") else 64)
                        bases.add(mm.group("b"))
                okb = len(bases) == 1 and bool(re.match(r"^ed25519_dalek::keypair::Keypair::from_bytes\(«SecretKey»\.0\)\.sign\(«Digest»\.0\)\.to_bytes\(\)$", next(iter(bases))))
                R.judge(okb and len(rng) == len(fm), prefix + ".X3", key(sn, "every part is a slice of sign(digest bytes) under the given secret key" + tag, i), lit["sp"], str(fm)[:200],
                        "Signature::new stores %s" % str(fm)[:300])
                ft = env.ctx(fl).term(tail_expr(fl))
                mo = re.match(r"^\[(?P<parts>[^\]]+)\]\.concat\(\)\.try_into\(\)$", ft)
                order = [p_.strip()[len("self."):] for p_ in mo.group("parts").split(",")] if mo else []
                pos = 0
                contiguous = bool(order) and all(o in rng for o in order)
                for o in order:
                    if not contiguous:
                        break
                    if rng[o][0] != pos:
                        contiguous = False
                    pos = rng[o][1]
                R.judge(contiguous and pos == 64, prefix + ".X3", key(fl, "flatten(new(..)) reassembles the 64 signature bytes in order" + tag, i), fl.sp, "%s with %s" % (ft, rng),
                        "Signature::flatten = `%s` with parts %s does not reproduce bytes 0..64 of the signature in order" % (ft, rng))

        # ---------------- X4 (C04.S3) verification calls
        from . import c04
        aux = _Aux()
        try:
            c04.rules({cfg: prog}, aux)
        except Exception as e:
            aux.fail("C04.S3", "crash", "", "C04 rules crashed: %r" % e)
        n4 = 0
        for r in aux.rules:
            if r["rule"] == "C04.S3":
                n4 += 1
                (R.ok if r["ok"] else R.fail)(prefix + ".X4", "C04.S3:" + r["key"].split("|", 1)[1], r["loc"], r["detail"])
        R.floor(prefix + ".X4", n4, 3, "crypto entry-point obligations (C04.S3)" + tag)

        # ---------------- X6 the signing service answers each request with the signature of THAT request's digest
        ssn = prog.fn("crypto::SignatureService::new")
        if R.judge(ssn is not None, prefix + ".X6", "anchor SignatureService::new" + tag, "", "", "anchor-missing", reason="anchor-missing"):
            c6 = env.ctx(ssn)
            from ..wiring import ONESHOT_SEND
            reps = [n for n in ssn.nodes() if n["k"] == "mcall" and ONESHOT_SEND in callee_paths(n)]
            R.floor(prefix + ".X6", len(reps), 1, "replies of the signature service" + tag)
            for i, n in enumerate(reps):
                ht = c6.term(n["recv"])
                vt = c6.term(n["args"][0])
                m = re.match(r"^(?P<req>.+)\.1$", ht)
                ok6 = bool(m) and vt == "crypto::Signature::new(%s.0,«SecretKey»)" % m.group("req") and ".recv()" in ht
                R.judge(ok6, prefix + ".X6", key(ssn, "reply = Signature::new(digest of the same request, own secret key)" + tag, i), n["sp"], "%s <- %s" % (ht, vt),
                        "the service answers handle `%s` with `%s`: not the signature of the digest that came with that handle" % (ht, vt))
            rq = prog.fn("crypto::SignatureService::request_signature")
            if rq is not None:
                cq = env.ctx(rq)
                ss_ = [n for n in rq.nodes() if n["k"] == "mcall" and "tokio::sync::mpsc::bounded::Sender::<T>::send" in callee_paths(n)]
                okq = len(ss_) == 1 and cq.term(ss_[0]["args"][0]) == "(«Digest»,tokio::sync::oneshot::channel().0)"
                R.judge(okq, prefix + ".X6", key(rq, "request carries (digest, reply handle of this call)" + tag), rq.sp, str([cq.term(x["args"][0]) for x in ss_]),
                        "request_signature sends %s" % [cq.term(x["args"][0]) for x in ss_])

        # ---------------- X5 files
        rd, wr = prog.fn("node::config::Export::read"), prog.fn("node::config::Export::write")
        if R.judge(rd is not None and wr is not None, prefix + ".X5", "anchors Export::read/write" + tag, "", "", "anchor-missing", reason="anchor-missing"):
            r_calls = [n for n in rd.nodes() if n["k"] == "call" and n.get("fn", "").startswith("serde_json::")]
            w_calls = [n for n in wr.nodes() if n["k"] == "call" and n.get("fn", "").startswith("serde_json::")]
            okr = len(r_calls) == 1 and "from_" in r_calls[0]["fn"]
            okw = len(w_calls) == 1 and "to_" in w_calls[0]["fn"] and env.ctx(wr).term(w_calls[0]["args"][0]) == "self"
            R.judge(okr and okw, prefix + ".X5", key(rd, "files are serde_json of the value itself, both directions" + tag), rd.sp,
                    "%s / %s" % ([n["fn"] for n in r_calls], [n["fn"] for n in w_calls]), "Export::read/write do not use serde_json from_*/to_* of Self")
            if okr:
                rt = env.ctx(rd).term(r_calls[0]["args"][0])
                R.judge("std::fs::read(«str»)" in rt, prefix + ".X5", key(rd, "reads the file at the given path" + tag), r_calls[0]["sp"], rt, "Export::read parses `%s`" % rt)
        exported = [i["self"] for i in prog.impls if i.get("trait") == "node::config::Export"]
        R.floor(prefix + ".X5", len(exported), 3, "Export implementors (Secret, Committee, Parameters)" + tag)
        seen = set()

        def walk_ty(t):
            for m in re.findall(r"[A-Za-z_][A-Za-z0-9_]*(?:::[A-Za-z_][A-Za-z0-9_]*)+", t):
                if m in seen or (m not in prog.structs and m not in prog.enums):
                    continue
                seen.add(m)
                fs = prog.structs[m]["fields"] if m in prog.structs else [f for v in prog.enums[m]["variants"] for f in v["fields"]]
                for f_ in fs:
                    walk_ty(f_["ty"])
        for e in exported:
            walk_ty(e)
        for t in sorted(seen):
            impls = [i for i in prog.impls if i["self"] == t and str(i.get("trait", "")).endswith(("ser::Serialize", "de::Deserialize"))]
            kinds = set(str(i["trait"]).rsplit("::", 1)[-1] for i in impls)
            custom = [i for i in impls if not i.get("derived")]
            ok = kinds == {"Serialize", "Deserialize"} and (not custom or t in [k for k, _ in KEYS])
            R.judge(ok, prefix + ".X5", "%s serializes and deserializes (derive or the paired key codec)%s" % (t, tag), "", str(sorted(kinds)),
                    "%s: serde impls %s, custom %s" % (t, sorted(kinds), [i["trait"] for i in custom]))
            sd = prog.structs.get(t)
            attrs = []
            if sd:
                for f_ in sd["fields"]:
                    for a in f_.get("attrs", []) or []:
                        if "serde" in a:
                            attrs.append("%s.%s: %s" % (t, f_["name"], a))
            R.judge(not attrs, prefix + ".X5", "%s has no serde field attributes%s" % (t, tag), "", "", "serde attributes change the file format asymmetrically: %s" % attrs)
            if not custom and kinds == {"Serialize", "Deserialize"}:
                from .. import serdeshape
                probs = serdeshape.check(prog, env, t)
                R.judge(not probs, prefix + ".X5", "%s: derived encoding covers every field%s" % (t, tag), "", "", "; ".join(probs)[:400])


def check(P, R, tier):
    R.explanation = EXPLANATION
    R.assumptions = ["ed25519-dalek sign/verify_strict/verify_batch semantics (not decided)", "base64 encode/decode are mutually inverse", "serde_json round-trips derived types"]
    rules(P, R)
