"""C14 — Reliable sender: queue discipline of reliable_sender::Connection (structural clauses).

Logical order of un-acknowledged messages: L = pending_replies ++ buffer.  Gaps of L:
  g0 = pending_replies.front        g1 = pending_replies.back == buffer.front        g2 = buffer.back
Every deque operation is typed by the gap it touches; an element taken out at gap g may only be put back at g (order
preserving), consumed by `handler.send(reply)`, or dropped on a path where `handler.is_closed()` holds."""
import itertools
import re

from .. import ir
from ..analysis import And, Atom, Not, Or, T, F, atoms_of, evalf, implies, show, diverges, peel_ty
from ..common import Env, call_args, callee_paths, key, ordinal_keys, MPSC_RECV, MPSC_SEND
from ..paths import enum_paths, TooManyPaths
from ..wiring import Wiring, ONESHOT_SEND
from .c12 import ordered_map_push

LEVEL = "other"
CONFIGS = ("default", "benchmark")
CONN = "network::reliable_sender::Connection"
RS = "network::reliable_sender::ReliableSender"
INNER = "network::reliable_sender::InnerMessage"
DISPATCH = "network::receiver::MessageHandler::dispatch"
SINK_SEND = "futures_util::sink::SinkExt::send"
EXPLANATION = (
    "Static rules over reliable_sender::Connection and its callers: (F1) every VecDeque operation on buffer / pending_replies is "
    "typed by the gap of the logical sequence pending_replies ++ buffer it touches; moved elements re-enter at the gap they left, "
    "new messages enter only at buffer.back, operations outside the modelled vocabulary are reported; (F2) on every structured "
    "path after a pop the (data, handler) pair is re-queued, acknowledged via handler.send, or dropped under handler.is_closed(); "
    "keep_alive has no early return so every exit passes the drain loop that moves all of pending_replies back; (F3) transmissions "
    "and discards are conditioned on handler.is_closed() only; (F4) the single handler.send resolves the element popped from "
    "pending_replies.front with the frame just read; an ACK with nothing pending ends the connection; (F5) the connection task's "
    "outer loop has no exit and reconnects to self.address; (F6) ReliableSender::send ships the oneshot sender to the connection "
    "of that address and returns the receiver, broadcast keeps input order; (F7) the peer's receiver awaits dispatch per frame "
    "sequentially and every dispatch path for a reliably-sent message variant writes exactly one reply.")

MUTATORS = {"push_back", "push_front", "pop_back", "pop_front", "retain", "clear", "drain", "insert", "remove", "append",
            "extend", "swap", "truncate", "split_off", "rotate_left", "rotate_right", "make_contiguous", "retain_mut",
            "swap_remove_back", "swap_remove_front", "resize", "iter_mut", "front_mut", "back_mut", "get_mut", "as_mut_slices"}
READERS = {"len", "is_empty", "iter", "front", "back", "get", "contains", "capacity"}


def deref(n):
    while n["k"] in ("ref",) or (n["k"] == "un" and n.get("op") == "*"):
        n = n["e"]
    return n


def satisfiable(f, forced):
    atoms = [a for a in atoms_of(f) if a not in forced]
    if len(atoms) > 14:
        return True
    for vals in itertools.product((False, True), repeat=len(atoms)):
        asg = dict(forced)
        asg.update(zip(atoms, vals))
        if evalf(f, asg):
            return True
    return False


def rules(P, R, prefix="C14"):
    for cfg, prog in P.items():
        env = Env(prog)
        W = Wiring(prog, env)
        tag = "" if cfg == "default" else "@" + cfg
        cfns = [f for f in prog.methods_of(CONN) if not f.derived]
        st = prog.structs.get(CONN)
        if not R.judge(bool(cfns) and st is not None, prefix + ".F1", "anchor Connection" + tag, "", "", "anchor-missing: " + CONN,
                       reason="anchor-missing"):
            continue
        bfields = [fl["name"] for fl in st["fields"] if "VecDeque" in fl["ty"]]
        R.judge(len(bfields) == 1, prefix + ".F1", "one retransmission buffer field" + tag, "", str(bfields),
                "Connection has %d VecDeque fields %s: the order model pending_replies ++ buffer does not apply (undecidable-shape)" % (len(bfields), bfields),
                reason="undecidable-shape")
        if len(bfields) != 1:
            continue
        B = "self." + bfields[0]
        # local deques
        locals_ = {}
        for f in cfns:
            for n in f.nodes():
                if n["k"] == "slet" and n["pat"].get("k") == "pbind" and "VecDeque" in (n["pat"].get("ty") or ""):
                    locals_["local:" + n["pat"]["name"]] = (f, n)
        R.judge(len(locals_) == 1, prefix + ".F1", "one local in-flight deque" + tag, "", str(sorted(locals_)),
                "%d local VecDeques %s in Connection methods (undecidable-shape)" % (len(locals_), sorted(locals_)), reason="undecidable-shape")
        if len(locals_) != 1:
            continue
        Pq = next(iter(locals_))
        ka = locals_[Pq][0]            # the function owning pending_replies (keep_alive)
        GAP = {(Pq, "front"): "g0", (Pq, "back"): "g1", (B, "front"): "g1", (B, "back"): "g2"}

        # ---------------- enumerate deque operations
        ops = []
        for f in cfns:
            ctx = env.ctx(f)
            for n in f.nodes():
                if n["k"] == "mcall":
                    rt = ctx.term(n["recv"])
                    if rt in (B, Pq) and "VecDeque" in (deref(n["recv"]).get("ty") or peel_ty(n["recv"].get("ty") or "")):
                        ops.append((f, n, rt))
                # the deques must not escape
                if n["k"] in ("call", "mcall"):
                    for a in (n["args"] if n["k"] == "call" else n["args"]):
                        if a["k"] == "ref" and a.get("mut") and ctx.term(a) in (B, Pq):
                            R.fail(prefix + ".F1", key(f, "deque escapes by &mut" + tag), a["sp"],
                                   "%s is passed by &mut to %s: operations on it are outside the analysed vocabulary (undecidable-shape)" % (ctx.term(a), ir.pp(n)[:80]),
                                   reason="undecidable-shape")
        R.floor(prefix + ".F1", len(ops), 9, "VecDeque operations on buffer / pending_replies" + tag)
        pops, pushes, bulk = [], [], []
        for (f, n, q), i in ordinal_keys(ops, lambda x: (x[0].path, x[2], x[1]["name"])):
            name = n["name"]
            if name in READERS:
                continue
            if name in ("pop_front", "pop_back"):
                pops.append((f, n, q, i))
            elif name in ("push_front", "push_back"):
                pushes.append((f, n, q, i))
            elif name in ("into_iter", "drain", "iter") and bulk_move(env, f, n, q, B, Pq) is not None:
                ok_, why_ = bulk_move(env, f, n, q, B, Pq)
                bulk.append((f, n, q))
                R.judge(ok_, prefix + ".F1", key(f, "bulk move out of %s preserves the order of pending_replies ++ buffer%s" % (q, tag), i), n["sp"], why_,
                        "moving all of %s with this loop reorders the un-acknowledged messages: %s" % (q, why_))
            elif name == "retain" and q == Pq:
                R.fail(prefix + ".F4", key(f, "in-flight messages leave pending_replies only by their ACK or the re-queue%s" % tag, i), n["sp"],
                       "%s.retain(..) removes messages that were already transmitted: the peer still replies to them, so every later reply is "
                       "paired with the wrong message (ACK pairing is by FIFO position)" % q)
            elif name == "retain":
                ctx = env.ctx(f)
                clo = n["args"][0]
                body = clo["body"] if clo["k"] == "closure" else None
                while body is not None and body["k"] == "block" and not body.get("stmts") and "expr" in body:
                    body = body["expr"]
                bt = ctx.term(body) if body is not None else "?"
                ok = bool(re.match(r"^!%s\[\*\]\.1\.is_closed\(\)$" % re.escape(q), bt))
                R.judge(ok, prefix + ".F3", key(f, "retain drops only cancelled messages (%s)%s" % (q, tag), i), n["sp"], bt,
                        "retain on %s keeps `%s`: elements other than cancelled ones can be discarded" % (q, bt))
            else:
                R.fail(prefix + ".F1", key(f, "%s.%s within the order model%s" % (q, name, tag), i), n["sp"],
                       "operation %s on %s is outside the modelled vocabulary (push/pop at either end, retain): order preservation "
                       "cannot be decided (undecidable-shape)" % (name, q), reason="undecidable-shape")

        # ---------------- F1: pushes typed by gap
        for (f, n, q, i) in pushes:
            ctx = env.ctx(f)
            if re.match(r"^(%s|%s)(\.drain\(RangeFull\{\}\))?(\.rev\(\))?\[\*\]$" % (re.escape(B), re.escape(Pq)), ctx.term(n["args"][0])):
                continue      # element of a bulk move: judged as a whole above
            end = n["name"].split("_")[1]
            gap = GAP[(q, end)]
            at = ctx.term(n["args"][0])
            src = None
            m = re.match(r"^\((?P<a>.+)\.Some\.0,(?P<b>.+)\.Some\.1\)$", at)
            m2 = re.match(r"^(?P<a>.+)\.Some$", at)
            mnew = re.match(r"^\(sel\((?P<r>.+)\)\.Some\.data,sel\((?P<r2>.+)\)\.Some\.cancel_handler\)$", at)
            if m and m.group("a") == m.group("b"):
                src = m.group("a")
            elif m2 and not at.startswith("("):
                src = m2.group("a")
            if mnew and mnew.group("r") == mnew.group("r2") and mnew.group("r").endswith(".recv()"):
                ok = gap == "g2"
                R.judge(ok, prefix + ".F1", key(f, "new message enters at buffer.back (%s.%s)%s" % (q, n["name"], tag), i), n["sp"],
                        "%s.%s(%s)" % (q, n["name"], at[:80]),
                        "a message just received from the caller is inserted with %s.%s (gap %s): it overtakes queued messages; new "
                        "messages must enter at %s.push_back" % (q, n["name"], gap, B))
                continue
            pm = re.match(r"^(?P<q>.+)\.(?P<op>pop_front|pop_back)\(\)$", src or "")
            if not pm or pm.group("q") not in (B, Pq):
                R.fail(prefix + ".F1", key(f, "pushed value has a known origin (%s.%s)%s" % (q, n["name"], tag), i), n["sp"],
                       "%s.%s(%s): the pushed element is neither a freshly received message nor an intact (data, handler) pair popped from "
                       "one of the two queues (undecidable-shape)" % (q, n["name"], at[:120]), reason="undecidable-shape")
                continue
            sgap = GAP[(pm.group("q"), pm.group("op").split("_")[1])]
            ok = sgap == gap
            R.judge(ok, prefix + ".F1", key(f, "%s -> %s.%s preserves order%s" % (src, q, n["name"], tag), i), n["sp"],
                    "taken at %s, re-inserted at %s" % (sgap, gap),
                    "element taken with %s (gap %s of pending_replies++buffer) is re-inserted with %s.%s (gap %s): un-acknowledged "
                    "messages are reordered" % (src, sgap, q, n["name"], gap))
            R.sample({"rule": prefix + ".F1", "site": n["sp"], "from": src, "to": "%s.%s" % (q, n["name"]), "gap": gap})

        # ---------------- F2: nothing popped is lost
        for (f, n, q, i) in pops:
            ctx = env.ctx(f)
            scope, why = pop_scope(f, n)
            if scope is None:
                R.fail(prefix + ".F2", key(f, "popped pair is bound in a recognised scope (%s.%s)%s" % (q, n["name"], tag), i), n["sp"],
                       "cannot determine the scope of the element popped by %s.%s (%s) (undecidable-shape)" % (q, n["name"], why),
                       reason="undecidable-shape")
                continue
            popt = ctx.term(n)
            try:
                paths = []
                for s in scope:
                    paths = [p.then(q2) if p.exit == "fall" else p for p in (paths or [None]) for q2 in enum_paths(ctx, s)] if paths else enum_paths(ctx, s)
            except TooManyPaths:
                R.fail(prefix + ".F2", key(f, "paths after %s.%s enumerable%s" % (q, n["name"], tag), i), n["sp"], "too many paths (undecidable-shape)",
                       reason="undecidable-shape")
                continue
            lost = []
            n_paths = 0
            for p in paths:
                if p.exit == "panic":
                    continue
                n_paths += 1
                disp = []
                for e in p.events:
                    if e["k"] != "mcall":
                        continue
                    et = ctx.term(e)
                    if e["name"] in ("push_front", "push_back") and ctx.term(e["recv"]) in (B, Pq) and popt + ".Some" in ctx.term(e["args"][0]):
                        disp.append("requeue")
                    elif ONESHOT_SEND in callee_paths(e) and ctx.term(e["recv"]).startswith(popt + ".Some"):
                        disp.append("ack")
                if len(disp) == 1:
                    continue
                if not disp:
                    closed = Atom("c:%s.Some.1.is_closed()" % popt)
                    ok, _ = implies(p.cond(), closed)
                    if ok:
                        continue
                    lost.append("path [%s] ends with `%s` without re-queueing or acknowledging the pair" % (show(p.cond()), p.exit))
                else:
                    lost.append("path [%s] disposes of the pair %d times %s" % (show(p.cond()), len(disp), disp))
            R.judge(not lost, prefix + ".F2", key(f, "pair popped by %s.%s is re-queued, acknowledged or cancelled on every path%s" % (q, n["name"], tag), i),
                    n["sp"], "%d paths" % n_paths, "; ".join(lost)[:600])
            R.sample({"rule": prefix + ".F2", "pop": popt, "site": n["sp"], "paths": n_paths})

        # keep_alive: no early exit; drain loop moves everything back
        rets = [x for x in ir.walk(ka.body, into_closures=False) if x["k"] in ("ret", "try")]
        R.judge(not rets, prefix + ".F2", key(ka, "no early return before the re-queue loop" + tag), ka.sp, "",
                "%s can return at %s without moving pending_replies back into the buffer: sent-but-unacknowledged messages are lost"
                % (ka.path, [x["sp"] for x in rets]))
        drains = []
        for x in ir.walk(ka.body, into_closures=False):
            if x["k"] == "while" and x["c"]["k"] == "let":
                ctx = env.ctx(ka)
                it = ctx.term(x["c"]["init"])
                if it == Pq + ".pop_back()" or it == Pq + ".pop_front()":
                    brk = [y for y in ir.walk(x["body"], into_closures=False) if y["k"] in ("break", "continue", "ret")]
                    top = ka.parents().get(id(x))
                    drains.append((x, it, brk, top is ka.body))
        for x in ir.walk(ka.body, into_closures=False):
            if x["k"] == "for":
                ctx = env.ctx(ka)
                it = ctx.term(x["iter"])
                if re.match(r"^%s(\.drain\(RangeFull\{\}\))?(\.rev\(\))?$" % re.escape(Pq), it) and any(
                        y["k"] == "mcall" and y["name"] in ("into_iter", "drain") for y in ir.walk(x["iter"])):
                    brk = [y for y in ir.walk(x["body"], into_closures=False) if y["k"] in ("break", "continue", "ret")]
                    drains.append((x, it, brk, ka.parents().get(id(x)) is ka.body))
        R.floor(prefix + ".F2", len([d for d in drains if d[3]]), 1, "top-level re-queue loop over pending_replies in keep_alive" + tag)
        for (x, it, brk, top), i in ordinal_keys(drains, lambda d: 0):
            if not top:
                continue
            R.judge(not brk, prefix + ".F2", key(ka, "re-queue loop runs until pending_replies is empty" + tag, i), x["sp"], it,
                    "the re-queue loop can stop early (%s)" % [b["sp"] for b in brk])
            # it must be after the main loop on the fall-through path: it is a statement of the function's top block after the `loop`
            ss = ka.body.get("stmts", []) + ([ka.body["expr"]] if "expr" in ka.body else [])
            idx = next(k for k, s in enumerate(ss) if s is x)
            has_loop_before = any(any(y["k"] == "loop" for y in ir.walk(s, into_closures=False)) for s in ss[:idx])
            R.judge(has_loop_before, prefix + ".F2", key(ka, "re-queue loop follows the connection loop" + tag, i), x["sp"], "", "re-queue loop precedes the connection loop")

        # ---------------- F3 transmissions conditioned on !is_closed
        wsends = [(f, n) for f in cfns for n in f.nodes() if n["k"] == "mcall" and SINK_SEND in callee_paths(n)]
        R.floor(prefix + ".F3", len(wsends), 1, "frame transmissions in the connection" + tag)
        for (f, n), i in ordinal_keys(wsends, lambda x: x[0].path):
            ctx = env.ctx(f)
            dt = ctx.term(n["args"][0])
            m = re.match(r"^(?P<p>.+)\.Some\.0$", dt)
            pc = env.flow(f).pathcond(n)
            ok = False
            if m:
                ok, _ = implies(pc, Not(Atom("c:%s.Some.1.is_closed()" % m.group("p"))))
            R.judge(ok, prefix + ".F3", key(f, "cancelled messages are not transmitted" + tag, i), n["sp"], "%s under %s" % (dt, show(pc)),
                    "writer.send(%s) is reachable when the message's handle is closed, or the data is not the popped pair's (path condition %s)" % (dt, show(pc)))

        # a frame handed to the Framed sink is on the wire only after a flush: `SinkExt::send` = feed + flush.  A bare
        # feed / start_send leaves the frame in the codec's buffer while the connection records it as in flight.
        UNFLUSHED = ("futures_util::sink::SinkExt::feed", "futures_sink::Sink::start_send", "futures_util::sink::SinkExt::send_all")
        feeds = [(f, n) for f in prog.fns.values() if not f.derived for n in f.nodes()
                 if n["k"] in ("mcall", "call") and any(p in UNFLUSHED for p in callee_paths(n))]
        for (f, n), i in ordinal_keys(feeds, lambda x: x[0].path):
            ctx = env.ctx(f)
            flushed = False
            x = n
            pm = f.parents()
            while pm.get(id(x)) is not None and pm[id(x)]["k"] in ("await", "try", "match", "slet", "semi", "mcall", "assign"):
                x = pm[id(x)]
            blk = pm.get(id(x))
            if blk is not None and blk["k"] == "block":
                ss = blk.get("stmts", []) + ([blk["expr"]] if "expr" in blk else [])
                idx = next((k for k, s_ in enumerate(ss) if s_ is x), None)
                if idx is not None and idx + 1 < len(ss):
                    nxt = ss[idx + 1]
                    rt = ctx.term(n["recv"]) if n["k"] == "mcall" else None
                    flushed = any(y["k"] == "mcall" and y["name"] == "flush" and ctx.term(y["recv"]) == rt and pm.get(id(y), {}).get("k") == "await"
                                  for y in ir.walk(nxt, into_closures=False))
            R.judge(flushed, prefix + ".F3", key(f, "frames written to a socket are flushed" + tag, i), n["sp"], "feed followed by flush().await",
                    "`%s` queues a frame in the codec buffer without flushing it: the message is treated as sent (in flight / acknowledged) "
                    "while it may never reach the wire" % ir.pp(n, maxlen=80))
        R.ok(prefix + ".F3", "no unflushed frame writes besides the %d judged%s" % (len(feeds), tag), "", "feed/start_send/send_all call sites: %d" % len(feeds))

        # ---------------- F4 ACK pairing
        acks = [(f, n) for f in cfns for n in f.nodes() if n["k"] == "mcall" and ONESHOT_SEND in callee_paths(n)]
        others = [(f, n) for f in prog.fns.values() if f.crate == "network" and f.self_ty != CONN and not f.derived
                  for n in f.nodes() if n["k"] == "mcall" and ONESHOT_SEND in callee_paths(n)]
        R.judge(len(acks) == 1 and not others, prefix + ".F4", "single handle-resolution site" + tag, acks[0][1]["sp"] if acks else "",
                str([n["sp"] for f, n in acks + others]), "handles are resolved at %s" % [n["sp"] for f, n in acks + others])
        for (f, n), i in ordinal_keys(acks, lambda x: x[0].path):
            ctx = env.ctx(f)
            ht = ctx.term(n["recv"])
            vt = ctx.term(n["args"][0])
            pc = env.flow(f).pathcond(n)
            ok_h = ht == Pq + ".pop_front().Some.1"
            mm = re.match(r"^sel\((?P<r>.+\.next\(\))\)\.Some\.Ok(\.freeze\(\))?$", vt)
            ok_v = bool(mm)
            R.judge(ok_h, prefix + ".F4", key(f, "ACK resolves the oldest in-flight message" + tag, i), n["sp"], ht,
                    "the reply resolves `%s`, not the element at pending_replies.front" % ht)
            R.judge(ok_v, prefix + ".F4", key(f, "handle resolves with the frame just read from the peer" + tag, i), n["sp"], vt,
                    "the handle resolves with `%s`, not with the frame returned by reader.next() in this select arm" % vt)
            if ok_v:
                need = And(Atom("some(sel(%s))" % mm.group("r")), Atom("ok(sel(%s).Some)" % mm.group("r")))
                okp, _ = implies(pc, need)
                R.judge(okp, prefix + ".F4", key(f, "only a successfully read frame counts as ACK" + tag, i), n["sp"], show(pc),
                        "handler.send is reachable without Some(Ok(frame)) (path condition %s)" % show(pc))
        # empty pending_replies + frame => leave the connection loop
        pf = [(f, n, q, i) for (f, n, q, i) in pops if q == Pq and n["name"] == "pop_front"]
        for (f, n, q, i) in pf:
            par = f.parents().get(id(n))
            okn = False
            if par is not None and par["k"] == "match":
                for a in par["arms"]:
                    if a["pat"]["k"] in ("pexpr", "ptstruct") and a["pat"].get("path", "").endswith("::None"):
                        okn = a["body"]["k"] == "break" or diverges(a["body"])
            elif par is not None and par["k"] == "let" and par["pat"].get("path", "").endswith("::Some"):
                # `if let Some(m) = pending.pop_front() { .. } else { <leave> }` / `let Some(m) = .. else { <leave> }`
                w = f.parents().get(id(par))
                if w is not None and w["k"] == "if" and w["c"] is par and "e" in w:
                    okn = diverges(w["e"])
            elif par is not None and par["k"] == "slet" and "els" in par and par["pat"].get("path", "").endswith("::Some"):
                okn = diverges(par["els"])
            R.judge(okn, prefix + ".F4", key(f, "reply with nothing pending ends the connection" + tag, i), n["sp"], "",
                    "an unexpected reply (pending_replies empty) does not leave the connection loop")

        # ---------------- F5 reconnect forever
        run = next((f for f in cfns if any(x["k"] == "mcall" and ka.path in callee_paths(x) for x in f.nodes())), None)
        if R.judge(run is not None, prefix + ".F5", "anchor Connection::run (caller of keep_alive)" + tag, "", "", "anchor-missing", reason="anchor-missing"):
            ctx = env.ctx(run)
            body = run.body
            tail = body.get("expr") if body["k"] == "block" and "expr" in body else (body.get("stmts") or [None])[-1]
            ok = tail is not None and tail["k"] == "loop" and not any(
                (x["k"] == "ret") or (x["k"] == "break" and (x.get("label") == tail.get("label") and tail.get("label") or _targets(tail, x)))
                for x in ir.walk(tail["body"], into_closures=False))
            R.judge(ok, prefix + ".F5", key(run, "outer reconnect loop has no exit" + tag), run.sp, "", "Connection::run can leave its outer loop: "
                    "after that no message to this peer is ever retransmitted")
            conns = [x for x in run.nodes() if x["k"] == "call" and x.get("fn", "").endswith("TcpStream::connect")]
            R.floor(prefix + ".F5", len(conns), 1, "connect call" + tag)
            for i, x in enumerate(conns):
                R.judge(ctx.term(x["args"][0]) == "self.address", prefix + ".F5", key(run, "connects to the connection's own address" + tag, i), x["sp"],
                        ctx.term(x["args"][0]), "connects to %s" % ctx.term(x["args"][0]))
            # input messages are also drained (at buffer.back) while disconnected: covered by F1 floor (two new-message sites)
            news = [1 for (f, n, q, i) in pushes if re.match(r"^\(sel\(", env.ctx(f).term(n["args"][0]))]
            R.floor(prefix + ".F5", len(news), 2, "new-message intake sites (connected + while reconnecting)" + tag)

        # ---------------- F6 handle plumbing
        snd = prog.fn(RS + "::send")
        if R.judge(snd is not None, prefix + ".F6", "anchor ReliableSender::send" + tag, "", "", "anchor-missing", reason="anchor-missing"):
            ctx = env.ctx(snd)
            ms = [n for n in snd.nodes() if n["k"] == "mcall" and MPSC_SEND in callee_paths(n)]
            R.floor(prefix + ".F6", len(ms), 1, "hand-over to the connection task" + tag)
            for i, n in enumerate(ms):
                t = ctx.term(n)
                m = re.match(r"^self\.connections\.entry\((?P<a>[^)]+)\)\.or_insert_with\((?P<l>λ#\d+)\)\.send\(InnerMessage\{data:(?P<d>[^,]+),cancel_handler:"
                             r"tokio::sync::oneshot::channel\(\)\.0\}\)$", t)
                ps = [p for p in snd.params if p["k"] == "pbind" and p["name"] != "self"]
                addr_t = ctx.var_term(ps[0]["id"], ps[0]["name"]) if ps else "?"
                data_t = ctx.var_term(ps[1]["id"], ps[1]["name"]) if len(ps) > 1 else "?"
                ok = bool(m) and m.group("a") == addr_t and m.group("d") == data_t
                R.judge(ok, prefix + ".F6", key(snd, "message + oneshot sender go to the connection keyed by the address" + tag, i), n["sp"], t[:200],
                        "ReliableSender::send hands over `%s`: expected connections.entry(address).or_insert_with(spawn).send(InnerMessage{data, cancel_handler: <oneshot tx>})" % t[:300])
                # the or_insert_with closure spawns a connection for the same address
                clos = [x for x in snd.nodes() if x["k"] == "closure"]
                okc = False
                for c in clos:
                    for x in ir.walk(c["body"]):
                        if x["k"] == "call" and RS + "::spawn_connection" in callee_paths(x) and ctx.term(x["args"][0]) == addr_t:
                            okc = True
                R.judge(okc, prefix + ".F6", key(snd, "a missing connection is spawned for that address" + tag, i), n["sp"], "", "or_insert_with does not spawn a connection for the address being sent to")
            tail = snd.body.get("expr") if snd.body["k"] == "block" else None
            tt = ctx.term(tail) if tail is not None else None
            R.judge(tt == "tokio::sync::oneshot::channel().1", prefix + ".F6", key(snd, "returns the receiver half of the same oneshot" + tag), snd.sp, str(tt),
                    "ReliableSender::send returns `%s`" % tt)
        sc = prog.fn(RS + "::spawn_connection")
        if R.judge(sc is not None, prefix + ".F6", "anchor spawn_connection" + tag, "", "", "anchor-missing", reason="anchor-missing"):
            ctx = env.ctx(sc)
            calls = [x for x in sc.nodes() if x["k"] == "call" and CONN + "::spawn" in callee_paths(x)]
            okc = len(calls) == 1 and re.match(r"^network::reliable_sender::Connection::spawn\(«SocketAddr»,tokio::sync::mpsc::bounded::channel\(\d+\)\.1\)$", ctx.term(calls[0]))
            tail = sc.body.get("expr") if sc.body["k"] == "block" else None
            okt = tail is not None and re.match(r"^tokio::sync::mpsc::bounded::channel\(\d+\)\.0$", ctx.term(tail))
            R.judge(bool(okc and okt), prefix + ".F6", key(sc, "connection(address, rx) spawned, tx returned" + tag), sc.sp,
                    "%s ; returns %s" % (ctx.term(calls[0]) if calls else None, ctx.term(tail) if tail is not None else None),
                    "spawn_connection does not pair Connection::spawn(address, rx) with the returned tx of the same channel")
        csp = prog.fn(CONN + "::spawn")
        if csp is not None:
            ctx = env.ctx(csp)
            lits = [n for n in csp.nodes() if n["k"] == "struct" and n["path"] == CONN]
            for i, lit in enumerate(lits):
                fm = {fl["name"]: ctx.term(fl["e"]) for fl in lit["fields"]}
                R.judge(fm.get("address") == "«SocketAddr»" and fm.get("receiver") == "«Receiver»", prefix + ".F6",
                        key(csp, "Connection holds the given address and input channel" + tag, i), lit["sp"], str(fm)[:200], "Connection fields: %s" % fm)
        bc = prog.fn(RS + "::broadcast")
        if bc is not None:
            ok, why = ordered_map_push(env, bc)
            R.judge(ok, prefix + ".F6", key(bc, "broadcast: one handle per address, in input order" + tag), bc.sp, why, why)

        # ---------------- F7 peer replies once per frame, in order
        f7(prog, env, W, R, prefix, tag)
        # ---------------- F9 the reconnection back-off is one countdown, not one per drained message
        from ..common import fresh_timer_arms
        fta = fresh_timer_arms(cfns)
        for (f, n, b), i in ordinal_keys(fta, lambda x: x[0].path):
            R.fail(prefix + ".F9", key(f, "timer arm polls a timer created outside the loop" + tag, i), n["sp"],
                   "the timer of this select! arm is created in the arm itself (`%s`): every message drained meanwhile restarts the back-off, so under "
                   "steady traffic the connection is never re-established" % ir.pp(b["fut"], maxlen=80))
        R.ok(prefix + ".F9", "no per-iteration timers in the connection loops" + tag + " (%d found)" % len(fta), "", "")
        # ---------------- F8 writer and reader agree on the framing: every socket of the workspace is framed with the same codec
        # construction, so every frame a sender can emit (the codec's own limit) is a frame the receiver accepts
        fr = [(f, n) for f in prog.fns.values() if not f.derived for n in f.nodes()
              if n["k"] == "call" and any(p.startswith("tokio_util::codec::framed::Framed") and p.endswith("::new") for p in callee_paths(n))]
        R.floor(prefix + ".F8", len(fr), 3, "Framed::new sites (receiver, reliable sender, simple sender)" + tag)
        codecs = {}
        for (f, n) in fr:
            codecs.setdefault(env.ctx(f).term(n["args"][1]) if len(n["args"]) > 1 else "?", []).append((f, n))
        if len(codecs) == 1:
            R.ok(prefix + ".F8", "all sockets use the same frame codec" + tag, fr[0][1]["sp"], list(codecs)[0][:120])
        else:
            major = max(codecs, key=lambda k_: len(codecs[k_]))
            for k_, sites in codecs.items():
                if k_ == major:
                    continue
                for (f, n), i in ordinal_keys(sites, lambda x: x[0].path):
                    R.fail(prefix + ".F8", key(f, "all sockets use the same frame codec" + tag, i), n["sp"],
                           "this socket is framed with `%s` while the others use `%s`: a frame that one side can write is rejected by the other "
                           "(the connection is dropped and the message retransmitted for ever)" % (k_[:160], major[:160]))


def bulk_move(env, f, n, q, B, Pq):
    """`for m in <q>[.into_iter()|.drain(..)][.rev()] { <other>.push_front/back(m) }`: simulate on P=[p1,p2,p3], B=[b1,b2]
    and require P' ++ B' == P ++ B.  Returns None when n is not the iterator of such a loop, else (ok, description)."""
    ctx = env.ctx(f)
    loop = None
    for a in f.ancestors(n):
        if a["k"] == "for" and any(x is n for x in ir.walk(a["iter"])):
            loop = a
            break
        if a["k"] in ("loop", "while", "closure"):
            break
    if loop is None:
        return None
    it = ctx.term(loop["iter"])
    m = re.match(r"^(?P<q>.+?)(?P<dr>\.drain\(RangeFull\{\}\))?(?P<rev>\.rev\(\))?$", it)
    if not m or m.group("q") != q:
        return (False, "iterates `%s` (only full into_iter()/drain(..) with optional rev() are modelled; undecidable-shape)" % it)
    if n["name"] == "iter":
        return (False, "iterates by reference: elements are copied, not moved (undecidable-shape)")
    rev = bool(m.group("rev"))
    esc = [x for x in ir.walk(loop["body"], into_closures=False) if x["k"] in ("break", "continue", "ret")]
    pushes = [x for x in ir.walk(loop["body"], into_closures=False) if x["k"] == "mcall" and x["name"] in ("push_front", "push_back")
              and ctx.term(x["recv"]) in (B, Pq)]
    others = [x for x in ir.walk(loop["body"], into_closures=False) if x["k"] == "mcall" and ctx.term(x["recv"]) in (B, Pq) and x not in pushes]
    if esc or others or len(pushes) != 1 or ctx.term(pushes[0]["args"][0]) != it + "[*]":
        return (False, "loop body is not a single unconditional push of the iterated element")
    Ps, Bs = ["p1", "p2", "p3"], ["b1", "b2"]
    want = Ps + Bs
    src = Ps if q == Pq else Bs
    order = list(reversed(src)) if rev else list(src)
    del src[:]
    dst = Ps if ctx.term(pushes[0]["recv"]) == Pq else Bs
    for e in order:
        if pushes[0]["name"] == "push_front":
            dst.insert(0, e)
        else:
            dst.append(e)
    got = Ps + Bs
    return (got == want, "%s -> %s.%s%s gives %s (required %s)" % (it, ctx.term(pushes[0]["recv"]), pushes[0]["name"], "", got, want))


def _targets(loop, brk):
    """Unlabelled break: does it leave `loop` (i.e. is `loop` its innermost enclosing loop)?"""
    if brk.get("label"):
        return brk["label"] == loop.get("label")

    def find(n, inside):
        if n is brk:
            return inside
        for c in ir.children(n):
            if n["k"] == "closure":
                continue
            nested = inside or (n is not loop and n["k"] in ("loop", "while", "for"))
            r = find(c, nested)
            if r is not None:
                return r
        return None
    return find(loop, False) is False


def pop_scope(f, pop):
    """Statements executed after the popped element is bound.  Handles `while let Some(p) = q.pop() { body }` and
    `let p = match q.pop() { Some(m) => m, None => <diverge> }; rest-of-block`."""
    pm = f.parents()
    par = pm.get(id(pop))
    if par is None:
        return None, "no parent"
    if par["k"] == "let":
        w = pm.get(id(par))
        if w is not None and w["k"] == "while" and w["c"] is par:
            return [w["body"]], "while-let"
        if w is not None and w["k"] == "if" and w["c"] is par:
            # `let p = if let Some(m) = q.pop() { m } else { <diverge> }; rest-of-block`
            st = pm.get(id(w))
            if "e" in w and diverges(w["e"]) and st is not None and st["k"] == "slet":
                blk = pm.get(id(st))
                if blk is not None and blk["k"] == "block":
                    ss = blk.get("stmts", []) + ([blk["expr"]] if "expr" in blk else [])
                    idx = next(k for k, s_ in enumerate(ss) if s_ is st)
                    return ss[idx + 1:], "let-if-let"
            return [w["t"]], "if-let"
    if par["k"] == "match" and par["scrut"] is pop:
        live = [a for a in par["arms"] if not diverges(a["body"])]
        if len(live) == 1:
            st = pm.get(id(par))
            if st is not None and st["k"] == "slet":
                blk = pm.get(id(st))
                if blk is not None and blk["k"] == "block":
                    ss = blk.get("stmts", []) + ([blk["expr"]] if "expr" in blk else [])
                    idx = next(k for k, s in enumerate(ss) if s is st)
                    return ss[idx + 1:], "let-match"
            return [live[0]["body"]], "match-arm"
    if par["k"] == "slet" and par.get("init") is pop and "els" in par and diverges(par["els"]):
        # `let Some(p) = q.pop() else { <diverge> }; rest-of-block`
        blk = pm.get(id(par))
        if blk is not None and blk["k"] == "block":
            ss = blk.get("stmts", []) + ([blk["expr"]] if "expr" in blk else [])
            idx = next(k for k, s in enumerate(ss) if s is par)
            return ss[idx + 1:], "let-else"
    return None, "pop result is consumed by `%s`" % par["k"]


def f7(prog, env, W, R, prefix, tag):
    # (a) sequential dispatch per connection
    from ..common import receiver_fns
    runner = receiver_fns(prog)[1]
    if R.judge(runner is not None, prefix + ".F7", "anchor spawn_runner" + tag, "", "", "anchor-missing", reason="anchor-missing"):
        dsp = [n for n in runner.nodes() if n["k"] == "mcall" and n.get("fn") == DISPATCH]
        R.floor(prefix + ".F7", len(dsp), 1, "dispatch call" + tag)
        for i, n in enumerate(dsp):
            spawns = [a for a in runner.ancestors(n) if a["k"] == "call" and a.get("fn") == "tokio::task::spawn::spawn"]
            loops = [a for a in runner.ancestors(n) if a["k"] in ("while", "loop", "for")]
            # the per-frame loop must be inside (not outside) the only spawn: one task per connection, frames handled in order
            ok = len(spawns) == 1 and loops and all(any(x is l for x in ir.walk(spawns[0])) for l in loops)
            lp = loops[0] if loops else None
            if lp is not None:
                from ..common import inner_cond
                ic = inner_cond(env.flow(runner), n, lp["body"])
                extra = [a for a in atoms_of(ic) if not a.startswith(("ok(", "some("))]
                R.judge(not extra, prefix + ".F7", key(runner, "every received frame is dispatched (none filtered out)" + tag, i), n["sp"], show(ic),
                        "frames are dispatched only under `%s`: a skipped frame is never acknowledged, so the sender's FIFO ACK pairing shifts by one" % show(ic))
                # a frame whose handler failed may have been left without its reply: the connection must end there, or the
                # reply to the NEXT frame resolves the handle of this one (positional ACK pairing on the sender side)
                ctx_r = env.ctx(runner)
                okd = Atom("ok(%s)" % ctx_r.term(n))
                try:
                    lpaths = enum_paths(ctx_r, lp["body"])
                except TooManyPaths:
                    lpaths = None
                if R.judge(lpaths is not None, prefix + ".F7", key(runner, "frame loop paths enumerable" + tag, i), lp["sp"], "",
                           "too many paths through the frame loop (undecidable-shape)", reason="undecidable-shape"):
                    bad = [p for p in lpaths if any(e is n for e in p.events) and p.exit in ("fall", "continue") and not implies(p.cond(), okd)[0]]
                    R.judge(not bad, prefix + ".F7", key(runner, "connection is closed when the handler fails" + tag, i), n["sp"],
                            "%d paths through the frame loop" % len(lpaths),
                            "after dispatch returned Err the runner keeps reading frames (path `%s`): a message rejected before its reply was "
                            "written leaves a hole in the reply stream, and every later reply resolves the wrong handle" % (show(bad[0].cond()) if bad else ""))
            awaited = runner.parents().get(id(n), {}).get("k") == "await"
            R.judge(ok and awaited, prefix + ".F7", key(runner, "frames of one connection are dispatched sequentially" + tag, i), n["sp"], "",
                    "dispatch is not awaited inside the per-connection frame loop (frames may be handled concurrently / replies reordered)")
    # (b) which message variants are sent reliably
    reliable = {}
    for (f, n) in prog.call_sites(lambda p, i: p.startswith("network::reliable_sender::ReliableSender::") and p.rsplit("::", 1)[-1] in ("send", "broadcast", "lucky_broadcast")):
        if f.self_ty == "network::reliable_sender::ReliableSender" or f.derived:
            continue
        ctx = env.ctx(f)
        dt = ctx.term(n["args"][1])
        m = re.search(r"bincode::serialize\((?:[\w:]*::)?(?P<v>\w+)\(", dt)
        enum = None
        if m:
            for e in prog.enums.values():
                if any(v["name"] == m.group("v") for v in e["variants"]) and e["path"].split("::")[0] == f.crate:
                    enum = e["path"]
        if enum is None:
            R.fail(prefix + ".F7", key(f, "reliably sent payload has a known message variant" + tag), n["sp"],
                   "cannot determine the wire variant of `%s` (undecidable-shape)" % dt[:120], reason="undecidable-shape")
            continue
        reliable.setdefault(enum, set()).add(m.group("v"))
    R.floor(prefix + ".F7", len(reliable), 2, "message enums with reliably-sent variants" + tag)
    # (c) each such variant gets exactly one reply on every dispatch path
    for enum, variants in sorted(reliable.items()):
        handlers = []
        for f in prog.fns.values():
            if f.trait == "network::receiver::MessageHandler" and f.name == "dispatch":
                if any(x["k"] == "call" and "deserialize" in x.get("fn", "") and enum in (x.get("ty") or "") + str(x.get("targs") or "") for x in f.nodes()) or \
                        any(x["k"] in ("ptstruct", "pstruct", "pexpr") and str(x.get("path", "")).startswith(enum + "::") for x in f.nodes()):
                    handlers.append(f)
        if not R.judge(len(handlers) == 1, prefix + ".F7", "receiving handler of %s%s" % (enum, tag), "", str([h.path for h in handlers]),
                       "anchor-missing: %d dispatch impls decode %s" % (len(handlers), enum), reason="anchor-missing"):
            continue
        h = handlers[0]
        ctx = env.ctx(h)
        try:
            paths = enum_paths(ctx, h.body)
        except TooManyPaths:
            R.fail(prefix + ".F7", key(h, "dispatch paths enumerable" + tag), h.sp, "too many paths", reason="undecidable-shape")
            continue
        for v in sorted(variants):
            bad = []
            cnt = 0
            for p in paths:
                if p.exit == "panic":
                    continue
                cond = p.cond()
                forced = {}
                for a in atoms_of(cond):
                    mm = re.match(r"^is\((.+),(\w+)\)$", a)
                    if mm:
                        forced[a] = (mm.group(2) == v)
                    elif a.startswith("ok(") and "deserialize" in a:
                        forced[a] = True
                if not satisfiable(cond, forced):
                    continue
                cnt += 1
                replies = [e for e in p.events if e["k"] == "mcall" and SINK_SEND in callee_paths(e)]
                if len(replies) != 1:
                    bad.append("%d replies on path [%s]" % (len(replies), show(cond)[:160]))
            R.judge(cnt > 0 and not bad, prefix + ".F7", key(h, "%s::%s is acknowledged exactly once on every path%s" % (enum.rsplit("::", 1)[-1], v, tag)), h.sp,
                    "%d paths" % cnt, "; ".join(bad)[:500] or "no dispatch path handles the variant")


def check(P, R, tier):
    R.explanation = EXPLANATION
    R.assumptions = ["tokio mpsc is FIFO; oneshot resolves only via Sender::send or drop of the sender",
                     "TCP delivers frames in order on one connection; eventual connectivity is not decided"]
    rules(P, R)
