"""C12 — A node's own batch is proposed only after a quorum acknowledged it (structural clauses)."""
import re

from .. import ir
from ..analysis import And, Atom, Not, Or, cmp_formula, implies, show, atoms_of, diverges
from ..common import Env, call_args, callee_paths, key, ordinal_keys, MPSC_SEND
from ..wiring import Wiring

LEVEL = "other"
CONFIGS = ("default", "benchmark")
QW = "mempool::quorum_waiter::QuorumWaiter"
QWM = "mempool::quorum_waiter::QuorumWaiterMessage"
BM = "mempool::batch_maker::BatchMaker"
PROC = "mempool::processor::Processor"
RS = "network::reliable_sender::ReliableSender"
MCOMM = "mempool::config::Committee"
EXPLANATION = (
    "Static rules: (Q1) every channel send executed by the QuorumWaiter is under `acc >= committee.quorum_threshold()` where the "
    "test directly follows the accumulation; (Q2) the accumulator starts at self.stake (= committee.stake(own name) at the spawn "
    "site) and is increased only by values yielded by the stream built from the message's handlers, each future being "
    "waiter(handler_i, committee.stake(name_i)) of the SAME pair i, and waiter returns its stake only after awaiting the handle; "
    "(Q3) names and ACK handles stay paired: one unzip of (name, address) pairs, broadcast over exactly those addresses, handles "
    "zipped back with the names in order, ReliableSender::broadcast pushes one handle per address in input order, and the address "
    "list is committee.broadcast_addresses(own name) = every other authority once; (Q4) the own-batch Processor's input channel "
    "has the QuorumWaiter as only sender and the BatchMaker's output goes only to the QuorumWaiter. The arithmetic of the "
    "threshold is C17's; what an acknowledgement is (a peer's reply on that connection) is C14.F4.")


def single_init(fn, var):
    """Init expression of a local that is initialised once and never re-assigned (may be `mut` for &mut use)."""
    inits = []
    for n in fn.nodes():
        if n["k"] in ("slet", "let") and n["pat"].get("k") == "pbind" and n["pat"].get("id") == var["id"] and "init" in n:
            inits.append(n["init"])
        if n["k"] in ("assign", "assignop") and n["l"]["k"] == "var" and n["l"]["id"] == var["id"]:
            return None
    return inits[0] if len(inits) == 1 else None


def strip(n):
    while n["k"] in ("await", "try", "ref") or (n["k"] == "block" and not n.get("stmts") and "expr" in n):
        n = n["e"] if n["k"] != "block" else n["expr"]
    return n


def rules(P, R, prefix="C12"):
    for cfg, prog in P.items():
        env = Env(prog)
        W = Wiring(prog, env)
        tag = "" if cfg == "default" else "@" + cfg
        qfns = [f for f in prog.methods_of(QW) if not f.derived]
        if not R.judge(bool(qfns), prefix + ".Q1", "anchor QuorumWaiter" + tag, "", "", "anchor-missing: " + QW, reason="anchor-missing"):
            continue

        # ---------------- Q1 gate on every send
        sends = [(f, n, cs, p) for (f, n, cs, p) in W.send_sites if f.self_ty == QW and MPSC_SEND in callee_paths(n)]
        R.floor(prefix + ".Q1", len(sends), 1, "channel sends in the QuorumWaiter" + tag)
        accs = []
        for (f, n, cs, p), i in ordinal_keys(sends, lambda x: x[0].path):
            ctx = env.ctx(f)
            flow = env.flow(f)
            pc = flow.pathcond(n)
            thr = None
            for a in f.ancestors(n):
                if a["k"] == "if" and any(x is n for x in ir.walk(a["t"])):
                    c = a["c"]
                    if c["k"] == "bin" and c["op"] in (">=", "<=", ">", "<"):
                        l, r = (c["l"], c["r"]) if c["op"] in (">=", ">") else (c["r"], c["l"])
                        r = ctx.origin_node(r)
                        if r["k"] == "mcall" and MCOMM + "::quorum_threshold" in callee_paths(r) and l["k"] == "var":
                            thr = (a, l, r)
                            break
            if thr is None:
                # the gate may be spelled as an early `continue`/`break` on the negated test: take the (only) comparison of a
                # local with quorum_threshold() in this function; the path condition of the send must still imply it
                cands = []
                for a in f.nodes():
                    if a["k"] == "if" and a["c"]["k"] == "bin" and a["c"]["op"] in (">=", "<=", ">", "<"):
                        c = a["c"]
                        for l, r in ((c["l"], c["r"]), (c["r"], c["l"])):
                            ro = ctx.origin_node(r)
                            if ro["k"] == "mcall" and MCOMM + "::quorum_threshold" in callee_paths(ro) and l["k"] == "var":
                                cands.append((a, l, ro))
                if len(cands) == 1:
                    thr = cands[0]
            if thr is None:
                R.fail(prefix + ".Q1", key(f, "send gated by the quorum threshold" + tag, i), n["sp"],
                       "channel send in the QuorumWaiter is not inside `if <acc> >= committee.quorum_threshold()` (path condition %s)" % show(pc))
                continue
            ifn, acc, thr_call = thr
            req = cmp_formula(">=", ctx.term(acc), ctx.term(thr_call))
            ok, _ = implies(pc, req)
            R.judge(ok, prefix + ".Q1", key(f, "send gated by the quorum threshold" + tag, i), n["sp"],
                    "%s => %s" % (show(pc), show(req)), "path condition %s does not imply %s" % (show(pc), show(req)))
            R.sample({"rule": prefix + ".Q1", "site": n["sp"], "payload": ctx.term(p) if p is not None else None,
                      "path_condition": show(pc), "required": show(req)})
            # payload is the batch of the message whose handlers are being awaited
            accs.append((f, acc, ifn, n, p))

        # ---------------- Q2 accounting of the accumulator
        for (f, acc, ifn, snd, payload), i in ordinal_keys(accs, lambda x: x[0].path):
            ctx = env.ctx(f)
            vid = acc["id"]
            inits = [n["init"] for n in f.nodes() if n["k"] in ("slet", "let") and n["pat"].get("k") == "pbind"
                     and n["pat"].get("id") == vid and "init" in n]
            writes = [n for n in f.nodes() if n["k"] in ("assign", "assignop") and n["l"]["k"] == "var" and n["l"]["id"] == vid]
            it = [ctx.term(x) for x in inits]
            R.judge(it == ["self.stake"], prefix + ".Q2", key(f, "accumulator starts at the node's own stake" + tag, i),
                    inits[0]["sp"] if inits else f.sp, str(it), "accumulator `%s` is initialised with %s, not self.stake" % (acc["name"], it))
            # ... and it is a fresh counter for every batch: declared inside the scope that handles ONE received message
            decl = next((n for n in f.nodes() if n["k"] in ("slet", "let") and n["pat"].get("k") == "pbind" and n["pat"].get("id") == vid), None)
            scope_ok = False
            if decl is not None:
                for a in f.ancestors(decl):
                    if a["k"] == "select":
                        for b in a["branches"]:
                            if any(x is decl for x in ir.walk(b["body"])) and b.get("fut") is not None and ".recv()" in ctx.term(b["fut"]):
                                scope_ok = True
                        break
                    if a["k"] in ("while", "for") and any(x is decl for x in ir.walk(a["body"])):
                        it = ctx.term(a["c"]["init"]) if a["k"] == "while" and a["c"]["k"] == "let" else ""
                        if ".recv()" in it:
                            scope_ok = True
                        break
                    if a["k"] == "loop":
                        break
            R.judge(scope_ok, prefix + ".Q2", key(f, "accumulator is re-initialised for every batch" + tag, i), decl["sp"] if decl else f.sp, "",
                    "the stake accumulator `%s` is declared outside the per-message scope: stake acknowledged for one batch is still counted "
                    "for the next, which is then delivered on its first acknowledgement" % acc["name"])
            R.floor(prefix + ".Q2", len(writes), 1, "accumulations into the stake counter" + tag)
            msg_term = None
            for w, j in ordinal_keys(writes, lambda x: 0):
                okw = w["k"] == "assignop" and w["op"].rstrip("=") == "+" and w["r"]["k"] == "var"
                why = ir.pp(w)
                if okw:
                    # the added value is bound by `while let Some(s) = STREAM.next().await`
                    d = ctx.defs.get(w["r"]["id"])
                    src = None
                    if d and d[0][0] == "expr" and list(d[1]) == ["Some"]:
                        src = strip(d[0][1])
                    okw = src is not None and src["k"] == "mcall" and src["name"] == "next" and src["recv"]["k"] in ("var", "ref")
                    if okw:
                        sv = src["recv"]
                        while sv["k"] == "ref":
                            sv = sv["e"]
                        init = single_init(f, sv) if sv["k"] == "var" else None
                        okw = init is not None
                        if okw:
                            okw, why, msg_term = stream_of_waiters(prog, env, f, init)
                        else:
                            why = "the awaited stream `%s` is not a once-initialised local" % ir.pp(sv)
                    else:
                        why = "added value `%s` is not bound by `while let Some(_) = <stream>.next().await`" % ir.pp(w["r"])
                # the threshold test directly follows the accumulation
                blk = f.parents().get(id(w))
                follows = False
                if blk is not None and blk["k"] == "block":
                    ss = blk.get("stmts", []) + ([blk["expr"]] if "expr" in blk else [])
                    for a, b in zip(ss, ss[1:]):
                        if a is w and b is ifn:
                            follows = True
                R.judge(okw, prefix + ".Q2", key(f, "stake added = stake of the peer whose ACK handle completed" + tag, j), w["sp"], why,
                        "accumulation `%s` is not fed by waiter(handler_i, committee.stake(name_i)): %s" % (ir.pp(w), why))
                R.judge(follows, prefix + ".Q2", key(f, "threshold tested right after each accumulation" + tag, j), w["sp"],
                        "if-test is the next statement", "the quorum test does not directly follow `%s`" % ir.pp(w))
            # delivered payload belongs to the same message
            if payload is not None and msg_term is not None:
                pt = ctx.term(payload)
                R.judge(pt == msg_term + ".batch", prefix + ".Q2", key(f, "delivered batch is the one whose handles were awaited" + tag, i),
                        snd["sp"], pt, "delivers `%s` but awaited the handlers of `%s`" % (pt, msg_term))
        # waiter(handle, stake) returns stake only after awaiting the handle: checked in stream_of_waiters

        # spawn site: own stake
        sp_calls = prog.calls_to(QW + "::spawn")
        R.floor(prefix + ".Q2", len(sp_calls), 1, "QuorumWaiter::spawn call sites" + tag)
        for (f, n), i in ordinal_keys(sp_calls, lambda x: x[0].path):
            ctx = env.ctx(f)
            st = ctx.term(n["args"][1])
            m = re.match(r"^(.+)\.stake\((.+)\)$", st)
            ok = bool(m) and m.group(2) == "self.name" and m.group(1) == ctx.term(n["args"][0])
            R.judge(ok, prefix + ".Q2", key(f, "QuorumWaiter spawned with committee.stake(own name)" + tag, i), n["sp"], st,
                    "QuorumWaiter::spawn receives stake `%s` (committee `%s`): expected <committee>.stake(self.name) of the same committee"
                    % (st, ctx.term(n["args"][0])))
        qsp = prog.fn(QW + "::spawn")
        if qsp is not None:
            lits = [n for n in qsp.nodes() if n["k"] == "struct" and n["path"] == QW]
            R.floor(prefix + ".Q2", len(lits), 1, "QuorumWaiter struct literal" + tag)
            ctx = env.ctx(qsp)
            for i, lit in enumerate(lits):
                fm = {fl["name"]: ctx.term(fl["e"]) for fl in lit["fields"]}
                params = [p for p in qsp.params]
                want = ctx.term({"k": "var", "id": params[1]["id"], "name": params[1]["name"]}) if len(params) > 1 and params[1]["k"] == "pbind" else None
                R.judge(want is not None and fm.get("stake") == want, prefix + ".Q2", key(qsp, "stake field = spawn's stake parameter" + tag, i),
                        lit["sp"], str(fm.get("stake")), "QuorumWaiter.stake is initialised with %s" % fm.get("stake"))

        # ---------------- Q3 pairing of names and handles
        lits = [(f, n) for (f, n) in prog.struct_lits(QWM) if not f.derived]
        R.floor(prefix + ".Q3", len(lits), 1, "QuorumWaiterMessage construction sites" + tag)
        for (f, n), i in ordinal_keys(lits, lambda x: x[0].path):
            ctx = env.ctx(f)
            fm = {fl["name"]: ctx.term(fl["e"]) for fl in n["fields"]}
            h = fm.get("handlers", "")
            m = re.match(r"^(?P<A>.+)\.unzip\(\)\.0\.zip\((?P<N>.+)\.broadcast\((?P<A2>.+)\.unzip\(\)\.1,(?P<D>.+)\)\)\.collect\(\)$", h)
            ok = bool(m) and m.group("A") == m.group("A2")
            R.judge(ok, prefix + ".Q3", key(f, "handlers = names.zip(broadcast(addresses)) of one unzip" + tag, i), n["sp"], h[:200],
                    "handlers `%s` are not the names of one unzip zipped with the handles of a broadcast to that unzip's addresses" % h[:300])
            if ok:
                R.judge(fm.get("batch") == m.group("D"), prefix + ".Q3", key(f, "batch handed to the waiter is the broadcast payload" + tag, i),
                        n["sp"], fm.get("batch", "")[:120], "QuorumWaiterMessage.batch `%s` differs from the broadcast data `%s`" % (fm.get("batch"), m.group("D")))
                nets = [x for x in f.nodes() if x["k"] == "mcall" and RS + "::broadcast" in callee_paths(x)]
                R.judge(len(nets) == 1, prefix + ".Q3", key(f, "one reliable broadcast per sealed batch" + tag, i), n["sp"], str(len(nets)),
                        "%d ReliableSender::broadcast calls in %s" % (len(nets), f.path))
                R.sample({"rule": prefix + ".Q3", "site": n["sp"], "handlers": h[:300]})
                # provenance of the (name, address) list: a field fed by committee.broadcast_addresses(own name)
                A = m.group("A")
                if A.startswith("self."):
                    fld = A[len("self."):]
                    ok_src = False
                    src_t = "?"
                    for (g, c) in prog.calls_to(BM + "::spawn"):
                        gctx = env.ctx(g)
                        sp_fn = prog.fn(BM + "::spawn")
                        idx = next((k for k, p in enumerate(sp_fn.params) if p.get("name") == fld), None)
                        if idx is not None and idx < len(c["args"]):
                            src_t = gctx.term(c["args"][idx])
                            ok_src = bool(re.match(r"^self\.committee\.broadcast_addresses\(self\.name\)$", src_t))
                    R.judge(ok_src, prefix + ".Q3", key(f, "address list is committee.broadcast_addresses(own name)" + tag, i), n["sp"], src_t,
                            "BatchMaker.%s is fed by `%s`, not committee.broadcast_addresses(self.name)" % (fld, src_t))
        # broadcast_addresses: every other authority once, paired with its own address
        ba = prog.fn(MCOMM + "::broadcast_addresses")
        if R.judge(ba is not None, prefix + ".Q3", "anchor broadcast_addresses" + tag, "", "", "anchor-missing", reason="anchor-missing"):
            ctx = env.ctx(ba)
            tail = ba.body.get("expr") if ba.body["k"] == "block" else ba.body
            from ..common import iter_chain
            base, chain = iter_chain(tail) if tail is not None else (None, [])
            names = [c[0] for c in chain]
            okc = base is not None and ctx.term(base) == "self.authorities" and [x for x in names if x not in ("iter", "cloned")] == ["filter", "map", "collect"]
            detail = "%s: %s" % (ctx.term(base) if base is not None else None, names)
            if okc:
                flt = next(c for c in chain if c[0] == "filter")[1][0]
                mp = next(c for c in chain if c[0] == "map")[1][0]
                ft = ctx.term(strip(flt["body"]))
                mt = ctx.term(strip(mp["body"]))
                okc = ft in ("(self.authorities[*].0!=«PublicKey»)", "(«PublicKey»!=self.authorities[*].0)") and \
                    mt == "(self.authorities[*].0,self.authorities[*].1.mempool_address)"
                detail = "filter %s ; map %s" % (ft, mt)
            R.judge(okc, prefix + ".Q3", key(ba, "every other authority once, (name, its mempool address)" + tag), ba.sp, detail,
                    "broadcast_addresses is not authorities.iter().filter(name != myself).map((name, x.mempool_address)): %s" % detail)
        # ReliableSender::broadcast: one handle per address, input order
        bc = prog.fn(RS + "::broadcast")
        if R.judge(bc is not None, prefix + ".Q3", "anchor ReliableSender::broadcast" + tag, "", "", "anchor-missing", reason="anchor-missing"):
            ok, why = ordered_map_push(env, bc)
            R.judge(ok, prefix + ".Q3", key(bc, "one handle per address, in input order" + tag), bc.sp, why,
                    "ReliableSender::broadcast does not return exactly one send() handle per input address in order: " + why)

        # ---------------- Q4 wiring: no bypass
        proc_in = []
        for (g, c) in prog.calls_to(PROC + "::spawn"):
            if g.path.endswith("handle_clients_transactions") or any(RS in p or QW in p for x in g.nodes() if x["k"] == "call" for p in callee_paths(x)):
                eps = W.ep(g, c["args"][1])
                for (cid, end) in eps:
                    if end == "rx":
                        proc_in.append((g, c, cid))
        own = [(g, c, cid) for (g, c, cid) in proc_in if any(QW + "::spawn" in callee_paths(x) for x in g.nodes() if x["k"] == "call")]
        R.floor(prefix + ".Q4", len(own), 1, "own-batch Processor input channel" + tag)
        for (g, c, cid), i in ordinal_keys(own, lambda x: x[0].path):
            snd = W.senders_of(cid)
            bad = [f.path for (f, n, p) in snd if f.self_ty != QW]
            R.judge(snd and not bad, prefix + ".Q4", key(g, "own-batch Processor fed only by the QuorumWaiter" + tag, i), c["sp"],
                    str(sorted(set(f.path for (f, n, p) in snd))), "channel %s into the own-batch Processor is also written by %s" % (cid, bad))
        # BatchMaker output consumed only by the QuorumWaiter
        for (f, n, cs, p) in W.send_sites:
            if f.self_ty == BM and MPSC_SEND in callee_paths(n):
                for cid in sorted(cs):
                    cons = W.consumers(cid)
                    bad = [cf.path for (cf, cn, acts) in cons if cf.self_ty != QW]
                    R.judge(cons and not bad, prefix + ".Q4", key(f, "BatchMaker output goes only to the QuorumWaiter%s" % tag), n["sp"],
                            str([cf.path for (cf, cn, acts) in cons]), "BatchMaker's message channel %s is consumed by %s" % (cid, bad))


def stream_of_waiters(prog, env, f, init):
    """init = <msg>.handlers.into_iter().map(|(name, handler)| waiter(handler, committee.stake(&name))).collect()."""
    from ..common import iter_chain
    ctx = env.ctx(f)
    base, chain = iter_chain(init)
    names = [c[0] for c in chain if c[0] not in ("into_iter", "iter")]
    bt = ctx.term(base)
    if names != ["map", "collect"] or not bt.endswith(".handlers"):
        return False, "stream is `%s` %s, not <message>.handlers.into_iter().map(..).collect()" % (bt, names), None
    clo = next(c for c in chain if c[0] == "map")[1][0]
    if clo["k"] != "closure":
        return False, "map argument is not a closure", None
    body = clo["body"]
    tail = body
    while tail["k"] == "block":
        if "expr" not in tail:
            return False, "map closure has no tail expression", None
        tail = tail["expr"]
    tt = ctx.term(tail)
    m = re.match(r"^(?P<W>[\w:]+)\((?P<H>.+)\[\*\]\.1,self\.committee\.stake\((?P<H2>.+)\[\*\]\.0\)\)$", tt)
    if not m or m.group("H") != m.group("H2") or m.group("H") != bt:
        return False, "future is `%s`, not waiter(handlers[i].1, self.committee.stake(handlers[i].0))" % tt, None
    okw, whyw = waiter_ok(prog, env, m.group("W"))
    if not okw:
        return False, whyw, None
    wf = prog.fn(m.group("W"))
    return True, "stream = %s.map(|(name, h)| %s(h, committee.stake(name))); waiter awaits the handle, then returns the stake" % (bt, wf.name), bt[:-len(".handlers")]


def waiter_ok(prog, env, wpath):
    """wpath(handle, value): awaits the handle, then returns `value` (and nothing else, on every path)."""
    wf = prog.fn(wpath)
    if wf is None:
        return False, "waiter function %s not found" % wpath
    wctx = env.ctx(wf)
    ps = [p for p in wf.params if p["k"] == "pbind"]
    if len(ps) != 2:
        return False, "waiter has %d parameters" % len(ps)
    t0 = wctx.var_term(ps[0]["id"], ps[0]["name"])
    t1 = wctx.var_term(ps[1]["id"], ps[1]["name"])
    wt = wf.body
    while wt["k"] == "block" and "expr" in wt:
        last = wt
        wt = wt["expr"]
    rets = [x for x in wf.nodes() if x["k"] == "ret"]
    if rets or wctx.term(wt) != t1:
        return False, "waiter returns `%s` (or returns early), not its stake parameter" % wctx.term(wt)
    doms = env.flow(wf).dominators(wt)
    aw = [d for d in doms if d["k"] == "await" and wctx.term(d["e"]) == t0]
    if not aw:
        return False, "waiter does not await its handle before returning the stake"
    return True, "%s awaits the handle, then returns the stake" % wf.name


def ordered_map_push(env, fn):
    """fn(addresses, data): `for a in addresses { let h = self.send(a, data.clone()).await; out.push(h) } out`."""
    ctx = env.ctx(fn)
    ps = [p for p in fn.params if p["k"] == "pbind" and p["name"] not in ("self",)]
    if len(ps) < 2:
        return False, "unexpected signature"
    addr_t = ctx.var_term(ps[0]["id"], ps[0]["name"])
    data_t = ctx.var_term(ps[1]["id"], ps[1]["name"])
    tail = fn.body.get("expr") if fn.body["k"] == "block" else None
    if tail is None or tail["k"] != "var":
        return False, "does not return a local vector"
    out = tail
    muts = [n for n in fn.nodes() if n["k"] == "mcall" and n["recv"]["k"] == "var" and n["recv"]["id"] == out["id"]]
    bad = [n["name"] for n in muts if n["name"] != "push"]
    if bad:
        return False, "result vector is also modified by %s" % bad
    pushes = [n for n in muts if n["name"] == "push"]
    if len(pushes) != 1:
        return False, "%d pushes" % len(pushes)
    p = pushes[0]
    want = "self.send(%s[*],%s)" % (addr_t, data_t)
    got = ctx.term(p["args"][0])
    if got != want:
        return False, "pushes `%s`, expected `%s`" % (got, want)
    loops = [a for a in fn.ancestors(p) if a["k"] in ("for", "while", "loop")]
    if len(loops) != 1 or loops[0]["k"] != "for" or ctx.term(loops[0]["iter"]) != addr_t:
        return False, "push is not inside a single `for address in addresses` loop"
    body = loops[0]["body"]
    esc = [x for x in ir.walk(body, into_closures=False) if x["k"] in ("break", "continue", "ret")]
    if esc:
        return False, "loop body can skip an address (%s)" % esc[0]["k"]
    pc = env.flow(fn).pathcond(p)
    from ..analysis import T
    if pc != T and any(not a.startswith(("ok(", "some(")) for a in atoms_of(pc)):
        return False, "push is conditional: %s" % show(pc)
    return True, "for a in %s { out.push(self.send(a, data)) }; out" % addr_t


def check(P, R, tier):
    R.explanation = EXPLANATION
    R.assumptions = ["FuturesUnordered yields each future's output exactly once; oneshot resolves only via Sender::send or drop",
                     "an acknowledgement handle resolves with Ok only via Connection::keep_alive (C14.F4)",
                     "quorum arithmetic is C17's"]
    R.note("observed, not armed: QuorumWaiter::waiter ignores the handle's Err (`let _ = wait_for.await`); a handle whose sender is "
           "dropped would count as an ACK. The only holder of the sender half is the reliable sender's Connection, which drops a pair "
           "only when the receiver half is already closed (C14.F2/F3), so no failing history exists while C14 passes.")
    rules(P, R)
    # Q6: the threshold itself (C17, in particular the mempool committee's function and its agreement with consensus)
    from ..common import fold as _fold
    _fold(R, P, "c17", ("C17.O1", "C17.O2", "C17.O3", "C17.O4", "C17.O5", "C17.O6"), "C12.Q6", 12)
    # Q5: an acknowledgement is the peer's reply to THAT batch: handles resolve only through the FIFO ACK pairing of the
    # reliable sender's connection, which must not lose its alignment (C14.F1/F2/F4)
    from ..common import fold
    fold(R, P, "c14", ("C14.F1", "C14.F2", "C14.F4"), "C12.Q5", 20)
