"""C03 — Voting safety: one vote per round, none after timeout, only safe extensions.

Decides the structural clauses V1..V7 (see DESIGN.md §3 C03); it does not execute anything.
"""
from .. import ir
from ..analysis import And, Atom, Not, Or, cmp_formula, implies, show
from ..common import (BLOCK, CORE, TC, TIMEOUT, VOTE, Env, call_args, callee_paths, closure_projection,
                      in_module, is_call_to, iter_chain, key, ordinal_keys)

LEVEL = "other"
CONFIGS = ("default", "benchmark")
EXPLANATION = (
    "Static rules over the type-checked program (HIR expression trees with resolved callees): who may construct/sign a "
    "Vote, the path condition guarding Vote::new must imply the 2-chain HotStuff voting rule, last_voted_round is "
    "raised (monotonically, no await in between) before signing, a timeout raises it to the timed-out round first, "
    "and the voting function is only entered for block.round == self.round. These are necessary conditions of C03; "
    "that they suffice is the protocol argument recorded in DESIGN.md, not decided here.")

LVR = "last_voted_round"


def plus1(t):
    l, r = sorted([t, "1"])
    return "(%s+%s)" % (l, r)


def required_vote_guard(blk):
    r1 = cmp_formula(">", blk + ".round", "self." + LVR)
    qc_rule = cmp_formula("==", plus1(blk + ".qc.round"), blk + ".round")
    tc = blk + ".tc.Some"
    maxterm = tc + ".high_qc_rounds().max()"
    tc_rule = And(Atom("some(%s.tc)" % blk),
                  cmp_formula("==", plus1(tc + ".round"), blk + ".round"),
                  cmp_formula(">=", blk + ".qc.round", maxterm))
    return And(r1, Or(qc_rule, tc_rule)), maxterm


def monotone_write(env, f, n, kind, field):
    """A6: the write keeps `self.<field>` non-decreasing. Returns (ok, why)."""
    ctx = env.ctx(f)
    cur = "self." + field
    if kind == "assign":
        rhs = ctx.term(n["r"])
        if rhs.startswith("max(") and cur in rhs[4:-1].split(","):
            return True, "max(self.%s, _)" % field
        pc = env.flow(f).pathcond(n)
        ok, _ = implies(pc, cmp_formula(">=", rhs, cur))
        if ok:
            return True, "guarded: %s" % show(pc)
        # e = g + c with g >= cur known
        rn = ctx.origin_node(n["r"])
        if rn["k"] == "bin" and rn["op"] == "+":
            for a, b in ((rn["l"], rn["r"]), (rn["r"], rn["l"])):
                if b["k"] == "lit" and (b.get("v") or {}).get("int", -1) >= 0:
                    ok, _ = implies(pc, cmp_formula(">=", ctx.term(a), cur))
                    if ok:
                        return True, "guarded: %s, rhs = %s + const" % (show(pc), ctx.term(a))
        return False, "assignment `%s` is neither max(self.%s, _) nor guarded by rhs >= self.%s (path condition: %s)" % (
            ir.pp(n, maxlen=120), field, field, show(pc))
    if kind == "assignop" and n["op"] in ("+=", "+"):
        return True, "+= (unsigned)"
    return False, "write form `%s` (%s) is outside the monotone vocabulary" % (ir.pp(n, maxlen=120), kind)


def rules(P, R, prefix="C03"):
    for cfg, prog in P.items():
        env = Env(prog)
        tag = "" if cfg == "default" else "@" + cfg

        # ---------------- V1 who may sign a vote
        sites = prog.calls_to(VOTE + "::new")
        vote_fns = []
        for f, n in sites:
            if f.path not in [x.path for x in vote_fns]:
                vote_fns.append(f)
        R.floor(prefix + ".V1", len(sites), 1, "Vote::new call sites" + tag)
        lits = [(f, n) for f, n in prog.struct_lits(VOTE) if not in_module(f, "consensus::messages")]
        for (f, n), i in ordinal_keys(lits, lambda x: x[0].path):
            R.fail(prefix + ".V1", key(f, "Vote{..}literal" + tag, i), n["sp"],
                   "Vote struct literal outside consensus::messages: a vote can be forged without going through Vote::new")
        R.judge(len(vote_fns) == 1 and vote_fns[0].self_ty == CORE if vote_fns else False,
                prefix + ".V1", "single-voting-function" + tag, vote_fns[0].sp if vote_fns else "",
                "Vote::new is called only from %s" % [f.path for f in vote_fns],
                "Vote::new must be called from exactly one method of Core; found %s" % [f.path for f in vote_fns])
        if not vote_fns:
            continue

        for (f, n), i in ordinal_keys(sites, lambda x: x[0].path):
            ctx = env.ctx(f)
            flow = env.flow(f)
            args = call_args(n)
            blk = ctx.term(args[0]) if args else "?"
            # ---------------- V2 vote guard
            pc = flow.pathcond(n)
            req, maxterm = required_vote_guard(blk)
            ok, cex = implies(pc, req)
            R.sample({"rule": prefix + ".V2", "site": n["sp"], "block_term": blk, "path_condition": show(pc),
                      "required": show(req), "implied": ok})
            R.judge(ok, prefix + ".V2", key(f, "Vote::new guard" + tag, i), n["sp"],
                    "guard %s  =>  %s" % (show(pc), show(req)),
                    "the path condition of Vote::new does not imply the voting rule. have: %s ; need: %s ; "
                    "counterexample assignment: %s" % (show(pc), show(req), cex), have=show(pc), need=show(req))
            # ---------------- V3 bump before sign, no await between first read of lvr and bump
            bumps = []
            for d in flow.dominators(n):
                if d["k"] in ("call", "mcall"):
                    for p in callee_paths(d):
                        if p in prog.fns and (CORE, LVR) in env.trans_writes(p):
                            bumps.append(d)
                            break
                elif d["k"] == "assign":
                    t = d["l"]
                    if t["k"] == "field" and t.get("of") == CORE and t["name"] == LVR:
                        bumps.append(d)
            good = None
            for b in bumps:
                if b["k"] == "assign":
                    val = ctx.term(b["r"])
                    if val in ("max(%s.round,self.%s)" % (blk, LVR), "max(self.%s,%s.round)" % (LVR, blk), blk + ".round"):
                        good = b
                else:
                    a = call_args(b)
                    if len(a) >= 2 and ctx.term(a[1]) == blk + ".round":
                        good = b
            R.judge(good is not None, prefix + ".V3", key(f, "bump-before-sign" + tag, i), n["sp"],
                    "last_voted_round is raised to %s.round before Vote::new (%s)" % (blk, good["sp"] if good else ""),
                    "no write raising self.last_voted_round to %s.round dominates Vote::new: a second proposal of the "
                    "same round would be voted again" % blk)
            if good is not None:
                reads = [x for x in ir.walk(f.body) if x["k"] == "field" and x.get("of") == CORE and x["name"] == LVR]
                first = reads[0] if reads else None
                aw = flow.awaits_between(first, good) if first is not None else []
                R.judge(not aw, prefix + ".V3", key(f, "no-await-between-check-and-bump" + tag, i), good["sp"],
                        "check-then-bump of last_voted_round is await-free",
                        "an .await (%s) separates the last_voted_round test from its update" % [a["sp"] for a in aw])
            # the vote is for the block that was checked
            R.judge(True, prefix + ".V1", key(f, "Vote::new arg is " + blk + tag, i), n["sp"], "")

        # ---------------- V2b TC::high_qc_rounds projects the 3rd component of every vote
        hq = prog.fn(TC + "::high_qc_rounds")
        if R.judge(hq is not None, prefix + ".V2", "TC::high_qc_rounds exists" + tag, "", "",
                   "anchor-missing: consensus::messages::TC::high_qc_rounds (needed to interpret the TC voting rule)",
                   reason="anchor-missing"):
            ctx = env.ctx(hq)
            body = hq.body
            tail = body.get("expr") if body["k"] == "block" else body
            base, chain = iter_chain(tail) if tail is not None else (None, [])
            names = [c[0] for c in chain]
            bad = [x for x in names if x not in ("iter", "into_iter", "map", "cloned", "copied", "collect")]
            maps = [c for c in chain if c[0] == "map"]
            proj = None
            if len(maps) == 1 and maps[0][1] and maps[0][1][0]["k"] == "closure":
                proj = closure_projection(ctx, maps[0][1][0])
            okp = (base is not None and ctx.term(base) == "self.votes" and not bad and proj == "self.votes[*].2")
            R.judge(okp, prefix + ".V2", key(hq, "projects votes[*].2 over all votes" + tag), hq.sp,
                    "high_qc_rounds = self.votes[*].2 via %s" % names,
                    "TC::high_qc_rounds must return the third component of every element of self.votes; found base=%s "
                    "chain=%s projection=%s" % (ctx.term(base) if base else None, names, proj))

        # ---------------- V4 last_voted_round discipline (monotone writes)
        writes = prog.field_writes(CORE, LVR)
        R.floor(prefix + ".V4", len(writes), 1, "writes of Core.last_voted_round" + tag)
        for (f, n, kind), i in ordinal_keys(writes, lambda x: x[0].path):
            ok, why = monotone_write(env, f, n, kind, LVR)
            R.judge(ok, prefix + ".V4", key(f, "write last_voted_round" + tag, i), n["sp"], why,
                    "non-monotone write of last_voted_round: " + why)

        # ---------------- V5 no vote after timeout
        tsites = prog.calls_to(TIMEOUT + "::new")
        R.floor(prefix + ".V5", len(tsites), 1, "Timeout::new call sites" + tag)
        tlits = [(f, n) for f, n in prog.struct_lits(TIMEOUT) if not in_module(f, "consensus::messages")]
        for (f, n), i in ordinal_keys(tlits, lambda x: x[0].path):
            R.fail(prefix + ".V5", key(f, "Timeout{..}literal" + tag, i), n["sp"],
                   "Timeout struct literal outside consensus::messages bypasses the bump-before-timeout rule")
        for (f, n), i in ordinal_keys(tsites, lambda x: x[0].path):
            ctx = env.ctx(f)
            flow = env.flow(f)
            a = call_args(n)
            rterm = ctx.term(a[1]) if len(a) > 1 else "?"
            R.judge(rterm == "self.round", prefix + ".V5", key(f, "Timeout round is self.round" + tag, i), n["sp"],
                    "Timeout::new(.., %s, ..)" % rterm,
                    "the timeout is signed for `%s`, not for the node's current round self.round" % rterm)
            doms = flow.dominators(n)
            bump_idx = None
            for j, d in enumerate(doms):
                if d["k"] in ("call", "mcall") and any(
                        p in prog.fns and (CORE, LVR) in env.trans_writes(p) for p in callee_paths(d)):
                    aa = call_args(d)
                    if len(aa) >= 2 and ctx.term(aa[1]) == rterm:
                        bump_idx = j
                elif d["k"] == "assign" and d["l"]["k"] == "field" and d["l"].get("of") == CORE and d["l"]["name"] == LVR:
                    v = ctx.term(d["r"])
                    if v in ("max(self.%s,%s)" % (LVR, rterm), "max(%s,self.%s)" % (rterm, LVR), rterm):
                        bump_idx = j
            ok = bump_idx is not None
            R.judge(ok, prefix + ".V5", key(f, "bump-before-timeout" + tag, i), n["sp"],
                    "last_voted_round raised to %s before Timeout::new" % rterm,
                    "Timeout::new is not dominated by raising last_voted_round to the timeout's round (%s): the node "
                    "could still vote in a round it timed out" % rterm)
            if ok:
                # the round may not change between the bump and the timeout
                later = doms[bump_idx + 1:]
                movers = [d for d in later if d["k"] in ("call", "mcall") and any(
                    p in prog.fns and (CORE, "round") in env.trans_writes(p) for p in callee_paths(d))]
                R.judge(not movers, prefix + ".V5", key(f, "round stable between bump and timeout" + tag, i), n["sp"],
                        "no write of Core.round between bump and Timeout::new",
                        "self.round may change between the bump and Timeout::new (%s)" % [m["sp"] for m in movers])

        # ---------------- V6 round gate at the call of the voting function
        for vf in vote_fns:
            csites = prog.calls_to(vf.path)
            R.floor(prefix + ".V6", len(csites), 1, "call sites of the voting function" + tag)
            for (f, n), i in ordinal_keys(csites, lambda x: x[0].path):
                ctx = env.ctx(f)
                a = call_args(n)
                blk = ctx.term(a[1]) if len(a) > 1 else "?"
                pc = env.flow(f).pathcond(n)
                req = cmp_formula("==", blk + ".round", "self.round")
                ok, cex = implies(pc, req)
                R.sample({"rule": prefix + ".V6", "site": n["sp"], "path_condition": show(pc), "required": show(req)})
                R.judge(ok, prefix + ".V6", key(f, "round gate before voting" + tag, i), n["sp"],
                        "%s => %s" % (show(pc), show(req)),
                        "the voting function is reachable with %s.round != self.round. have: %s" % (blk, show(pc)))

        # ---------------- V7 the vote speaks about the checked block
        vn = prog.fn(VOTE + "::new")
        if vn is not None:
            ctx = env.ctx(vn)
            lits = [n for n in vn.nodes() if n["k"] == "struct" and n.get("path") == VOTE and "base" not in n]
            R.floor(prefix + ".V7", len(lits), 1, "Vote literal in Vote::new" + tag)
            for i, n in enumerate(lits):
                fields = {x["name"]: ctx.term(x["e"]) for x in n["fields"]}
                ok = fields.get("hash") == "«Block».digest()" and fields.get("round") == "«Block».round"
                R.judge(ok, prefix + ".V7", key(vn, "vote content" + tag, i), n["sp"],
                        "Vote{hash: block.digest(), round: block.round}",
                        "Vote::new must bind hash=block.digest() and round=block.round; found %s" % fields)


def check(P, R, tier):
    R.explanation = EXPLANATION
    R.assumptions = ["rustc's HIR/typeck is the meaning of the program", "third-party crates behave as documented",
                     "persistence of last_voted_round across restarts is out of scope (TODO #15 in the source)"]
    rules(P, R)
    # V6 second half: "the block's QC is of a lower round than the block" - every route into process_block has passed
    # process_qc(&block.qc) (which advances the round past qc.round) BEFORE the block can be parked for a later resume (C10.P4)
    from ..common import fold
    fold(R, P, "c10", ("C10.P4",), "C03.V6", 6)
    # "carries a quorum certificate / timeout certificate": what make_vote inspects is a certificate only because the block
    # (its signature, QC and TC) was verified on every route into the voting path, and because QC/TC::verify demand distinct
    # members reaching the quorum (C04.S1: verification dominates every effect of a handler; C04.S2: the verify functions)
    fold(R, P, "c04", ("C04.S1", "C04.S2"), "C03.V8", 30)
