"""C20 — Message identity: digests bind content, are domain-separated by length, survive serde round trips.

A12 pre-image layout extraction: ordered list of hasher.update(arg) with canonical argument term and static byte
width from the argument's type.
"""
import re

from .. import ir
from ..analysis import show, peel_ty
from ..common import BLOCK, CORE, MSG, QC, TC, TIMEOUT, VOTE, Env, call_args, callee_paths, key, ordinal_keys

LEVEL = "proof"
CONFIGS = ("default", "benchmark")
EXPLANATION = (
    "Proof-level for the structural clauses: for every digest function the ordered pre-image layout (argument term, "
    "static byte width from the type) is extracted from the type-checked program; H1 coverage of the identifying fields, "
    "H2 fixed widths, H3 at most one variable-length run of fixed-width elements (so the encoding is injective in the listed "
    "fields), H4 length sets of the three kinds are pairwise disjoint (domain separation), H5 one hash (SHA-512, first 32 "
    "bytes), H6 wire/storage types derive Serialize+Deserialize with no field attributes and the store/sync path encodes "
    "and decodes the same type. Collision resistance of SHA-512 and serde/bincode fidelity are the trusted base.")


def width_of(ty):
    t = peel_ty(ty or "")
    m = re.match(r"^\[u8; (\d+)\]$", t)
    if m:
        return int(m.group(1))
    if t == "crypto::Digest":
        return 32
    if t == "crypto::PublicKey":
        return 32
    return None


def hasher_updates(env, f, scope, hasher_id):
    """Ordered (term, width, in_loop_iter_term_or_None, node) for `hasher.update(x)` on the given hasher variable."""
    ctx = env.ctx(f)
    out = []

    def visit(n, loop):
        if not ir.is_node(n):
            return
        if n["k"] == "for":
            visit(n["iter"], loop)
            visit(n["body"], ctx.term(n["iter"]))
            return
        if n["k"] in ("while", "loop"):
            visit(n.get("body"), "?loop")
            return
        for c in ir.children(n):
            visit(c, loop)
        if n["k"] == "mcall" and n["name"] in ("update", "chain") and n["recv"]["k"] == "var" and n["recv"]["id"] == hasher_id:
            a = n["args"][0]
            out.append((ctx.term(a), width_of(a.get("ty")), loop, n))
    visit(scope, None)
    return out


def find_hasher(env, f, expr):
    """The hasher variable finalized inside `expr` -> (var id, finalize node, slice info)."""
    ctx = env.ctx(f)
    seen = set()
    stack = [expr]
    while stack:
        e = stack.pop()
        for x in ir.walk(e):
            if x["k"] == "mcall" and x["name"] in ("finalize", "finalize_reset") and x["recv"]["k"] == "var":
                return x["recv"]["id"], x
            # `let hash = hasher.finalize(); Digest(hash.as_slice()[..32]..)`: follow once-initialised locals
            if x["k"] == "var" and x.get("id") not in seen:
                seen.add(x.get("id"))
                o = ctx.origin_node(x)
                if o is not x:
                    stack.append(o)
    return None, None


def digest_layout(env, f):
    body = f.body
    hid, fin = find_hasher(env, f, body)
    if hid is None:
        return None, None
    ups = hasher_updates(env, f, body, hid)
    return ups, fin


def preimage_of_expr(env, f, dig_node):
    """Layout of the digest value used at `dig_node` (a variable bound to Digest(hasher.finalize()..))."""
    ctx = env.ctx(f)
    on = ctx.origin_node(dig_node)
    hid, fin = find_hasher(env, f, on)
    if hid is None:
        return None
    # updates on that hasher inside the innermost block that declares it
    decl_scope = f.body
    for n in f.nodes():
        if n["k"] == "slet" and n["pat"].get("k") == "pbind" and n["pat"].get("id") == hid:
            pm = f.parents()
            decl_scope = pm.get(id(n), f.body)
    ups = hasher_updates(env, f, decl_scope, hid)
    return [(t, w) for (t, w, loop, _n) in ups]


def hash_kind(env, f, fin):
    """(algorithm, truncated length) of the digest construction around the finalize node."""
    algo = peel_ty(fin["recv"].get("ty") or "")
    trunc = None

    def range_to(a):
        i = a["i"]
        if i["k"] == "struct" and i["path"].endswith("RangeTo"):
            e = i["fields"][0]["e"]
            if e["k"] == "lit":
                return e["v"].get("int")
        return None
    for a in f.ancestors(fin):
        if a["k"] == "index":
            trunc = range_to(a)
            break
    else:
        # the finalize result is bound to a local first: the slice is taken from that local
        st = next((a for a in f.ancestors(fin) if a["k"] == "slet" and a["pat"].get("k") == "pbind"), None)
        if st is not None:
            vid = st["pat"]["id"]
            idx = [n for n in f.nodes() if n["k"] == "index" and any(x["k"] == "var" and x.get("id") == vid for x in ir.walk(n["e"]))]
            if len(idx) == 1:
                trunc = range_to(idx[0])
    return algo, trunc


EXPECT = {
    BLOCK: [("self.author.0", 32, None), ("self.round.to_le_bytes()", 8, None), ("self.payload[*]", 32, "self.payload"),
            ("self.qc.hash", 32, None)],
    VOTE: [("self.hash", 32, None), ("self.round.to_le_bytes()", 8, None)],
    QC: [("self.hash", 32, None), ("self.round.to_le_bytes()", 8, None)],
    TIMEOUT: [("self.round.to_le_bytes()", 8, None), ("self.high_qc.round.to_le_bytes()", 8, None)],
}
# fields that identify the message per the property statement
COVER = {
    BLOCK: {"self.author", "self.round", "self.payload[*]", "self.qc.hash"},
    VOTE: {"self.hash", "self.round"},
    QC: {"self.hash", "self.round"},
    TIMEOUT: {"self.round", "self.high_qc.round"},
}


def length_set(layout):
    """(fixed, step) : lengths are fixed + step*k, k>=0 (step 0 when no variable run)."""
    fixed = sum(w for (_t, w, loop) in layout if loop is None)
    steps = [w for (_t, w, loop) in layout if loop is not None]
    return fixed, (steps[0] if steps else 0), len(steps)


def intersects(a, b):
    (fa, sa), (fb, sb) = a, b
    for k in range(0, 4096):
        la = fa + sa * k
        if sb == 0:
            if la == fb:
                return la
        elif la >= fb and (la - fb) % sb == 0:
            return la
        if sa == 0:
            break
    return None


def rules(P, R, prefix="C20"):
    for cfg, prog in P.items():
        env = Env(prog)
        tag = "" if cfg == "default" else "@" + cfg
        layouts = {}
        for ty in (BLOCK, VOTE, QC, TIMEOUT):
            f = prog.fn("<%s as crypto::Hash>::digest" % ty)
            short = ty.rsplit("::", 1)[-1]
            if not R.judge(f is not None, prefix + ".H1", "anchor <%s as Hash>::digest%s" % (short, tag), "", "",
                           "anchor-missing: Hash impl of %s" % ty, reason="anchor-missing"):
                continue
            ups, fin = digest_layout(env, f)
            if not R.judge(ups is not None, prefix + ".H1", key(f, "hasher found" + tag), f.sp, "",
                           "undecidable-shape: no `hasher.finalize()` on a local hasher in %s" % f.path, reason="undecidable-shape"):
                continue
            layout = [(t, w, loop) for (t, w, loop, _n) in ups]
            layouts[ty] = layout
            R.sample({"rule": prefix + ".H1", "digest": f.path, "layout": [[t, w, loop] for (t, w, loop) in layout]})
            # H1 coverage
            covered = set()
            for (t, w, loop) in layout:
                for c in COVER[ty]:
                    if t == c or t.startswith(c + ".") or t.startswith(c + "["):
                        covered.add(c)
            missing = COVER[ty] - covered
            R.judge(not missing, prefix + ".H1", key(f, "digest covers the identifying fields" + tag), f.sp,
                    "covers %s" % sorted(covered),
                    "%s::digest does not feed %s into the hash: two %ss differing only there get the same digest (and the same "
                    "signature)" % (short, sorted(missing), short))
            # every field is fed on EVERY path: a conditional update makes two messages that differ only in that field collide
            flow_ = env.flow(f)
            cond_ups = []
            for (t, w, loop, n) in ups:
                pc = flow_.pathcond(n)
                from ..analysis import T as _T, atoms_of as _atoms
                if pc != _T and any(not a.startswith(("ok(", "some(")) for a in _atoms(pc)):
                    cond_ups.append("%s only under %s" % (t, show(pc)))
            R.judge(not cond_ups, prefix + ".H1", key(f, "every update is unconditional" + tag), f.sp, "%d updates" % len(ups),
                    "%s::digest feeds fields conditionally (%s): messages differing only in such a field can share a digest, and the "
                    "pre-image length sets of H4 no longer hold" % (short, "; ".join(cond_ups)))
            # payload loop covers all elements
            for (t, w, loop, n) in ups:
                if loop is not None:
                    R.judge(loop == "self.payload" and t == "self.payload[*]", prefix + ".H1", key(f, "loop feeds every payload element" + tag),
                            n["sp"], "for x in &self.payload { update(x) }", "variable run iterates `%s` feeding `%s`" % (loop, t))
                    fl = [x for x in f.nodes() if x["k"] == "for"]
                    skips = [y for x in fl for y in ir.walk(x["body"], into_closures=False) if y["k"] in ("break", "continue")]
                    R.judge(not skips, prefix + ".H1", key(f, "payload loop has no skip" + tag), n["sp"], "", "payload loop can skip elements")
            # H2 widths
            unk = [t for (t, w, loop) in layout if w is None]
            R.judge(not unk, prefix + ".H2", key(f, "every update has a static width" + tag), f.sp,
                    str([(t, w) for (t, w, _l) in layout]), "arguments without a static byte width: %s" % unk)
            # H3 at most one variable run
            fixed, step, nvar = length_set(layout)
            R.judge(nvar <= 1, prefix + ".H3", key(f, "at most one variable-length run" + tag), f.sp, "runs=%d" % nvar,
                    "%d variable-length runs: field boundaries are ambiguous" % nvar)
            # exact layout (order + endianness) against the reference: the wire identity other nodes compute
            R.judge(layout == EXPECT[ty], prefix + ".H1", key(f, "layout is the protocol's" + tag), f.sp, str(layout),
                    "layout %s differs from the protocol layout %s" % (layout, EXPECT[ty]))
            # H5
            algo, trunc = hash_kind(env, f, fin)
            R.judge(algo == "sha2::sha512::Sha512" and trunc == 32, prefix + ".H5", key(f, "SHA-512 truncated to 32 bytes" + tag), f.sp,
                    "%s[..%s]" % (algo, trunc), "digest construction is %s[..%s], expected Sha512[..32]" % (algo, trunc))
        # inline TC digest (TC::verify)
        tcv = prog.fn(TC + "::verify")
        tc_layout = None
        if tcv is not None:
            for n in tcv.nodes():
                if n["k"] == "mcall" and "crypto::Signature::verify" in callee_paths(n):
                    tc_layout = preimage_of_expr(env, tcv, call_args(n)[1])
            R.judge(tc_layout is not None, prefix + ".H1", key(tcv, "inline TC digest found" + tag), tcv.sp, str(tc_layout),
                    "undecidable-shape: no digest pre-image found for the per-vote signature check in TC::verify", reason="undecidable-shape")
        # sibling agreement (A14)
        if VOTE in layouts and QC in layouts:
            R.judge(layouts[VOTE] == layouts[QC], prefix + ".H4", "Vote::digest == QC::digest pre-image" + tag, "", str(layouts[VOTE]),
                    "Vote digest %s and QC digest %s differ: assembled QCs would not verify" % (layouts[VOTE], layouts[QC]))
        if TIMEOUT in layouts and tc_layout is not None:
            a = [(w) for (_t, w, _l) in layouts[TIMEOUT]]
            b = [w for (_t, w) in tc_layout]
            names_ok = [t.split(".")[-1] for (t, _w, _l) in layouts[TIMEOUT]] == [t.split(".")[-1] for (t, _w) in tc_layout]
            R.judge(a == b and names_ok, prefix + ".H4", "Timeout::digest == TC per-vote pre-image" + tag, "", "%s vs %s" % (layouts[TIMEOUT], tc_layout),
                    "Timeout digest %s and the TC per-vote digest %s differ (widths or byte order)" % (layouts[TIMEOUT], tc_layout))
        # H4 domain separation by length
        kinds = {}
        if BLOCK in layouts:
            f_, s_, _ = length_set(layouts[BLOCK])
            kinds["proposal"] = (f_, s_)
        if VOTE in layouts:
            f_, s_, _ = length_set(layouts[VOTE])
            kinds["vote/QC"] = (f_, s_)
        if TIMEOUT in layouts:
            f_, s_, _ = length_set(layouts[TIMEOUT])
            kinds["timeout/TC"] = (f_, s_)
        names = sorted(kinds)
        R.floor(prefix + ".H4", len(names), 3, "digest kinds" + tag)
        for i in range(len(names)):
            for j in range(i + 1, len(names)):
                a, b = kinds[names[i]], kinds[names[j]]
                hit = intersects(a, b) or intersects(b, a)
                R.judge(hit is None, prefix + ".H4", "length sets of %s and %s are disjoint%s" % (names[i], names[j], tag), "",
                        "%s: %d+%dk ; %s: %d+%dk" % (names[i], a[0], a[1], names[j], b[0], b[1]),
                        "pre-images of %s and %s can have the same length %s: a signature could be moved between kinds" % (names[i], names[j], hit))
        # H6 serde round trip
        wire = [BLOCK, VOTE, QC, TC, TIMEOUT, "crypto::Digest", "crypto::Signature", "consensus::consensus::ConsensusMessage",
                "mempool::mempool::MempoolMessage"]
        for ty in wire:
            impls = {i.get("trait"): i for i in prog.impls if i["self"] == ty}
            ser = impls.get("serde_core::ser::Serialize") or impls.get("serde::ser::Serialize")
            de = next((i for t, i in impls.items() if t and t.endswith("de::Deserialize")), None)
            ok = ser is not None and de is not None and ser["derived"] and de["derived"]
            R.judge(ok, prefix + ".H6", "%s derives Serialize+Deserialize%s" % (ty, tag), "", "derived both",
                    "%s does not derive both Serialize and Deserialize (ser=%s de=%s)" % (
                        ty, ser and ser["derived"], de and de["derived"]))
            s = prog.structs.get(ty)
            attrs = []
            if s:
                for fl in s["fields"]:
                    attrs += [(fl["name"], a) for a in (fl.get("attrs") or []) if "serde" in a]
                attrs += [("<struct>", a) for a in (s.get("attrs") or []) if "serde(" in a]
            e = prog.enums.get(ty)
            if e:
                for v in e["variants"]:
                    attrs += [(v["name"], a) for a in (v.get("attrs") or []) if "serde" in a]
                attrs += [("<enum>", a) for a in (e.get("attrs") or []) if "serde(" in a]
            R.judge(not attrs, prefix + ".H6", "%s has no serde field/variant attributes%s" % (ty, tag), "", "",
                    "serde attributes %s change the encoding of fields the digest/verify read" % attrs)
            # derive helper attributes do not survive into HIR on this toolchain; their effect on the derived impls does
            from .. import serdeshape
            probs = serdeshape.check(prog, env, ty) if ok else ["not derived"]
            R.judge(not probs, prefix + ".H6", "%s: derived encoding writes/reads every field in declaration order%s" % (ty, tag), "", "",
                    "; ".join(probs)[:500])
        # PublicKey uses the paired codec
        for ty in ("crypto::PublicKey",):
            ser = prog.fn("<%s as serde_core::ser::Serialize>::serialize" % ty) or prog.fn("<%s as serde::ser::Serialize>::serialize" % ty)
            de = next((f for p, f in prog.fns.items() if f.self_ty == ty and f.name == "deserialize" and (f.trait or "").endswith("de::Deserialize")), None)
            oks = ser is not None and any(n["k"] == "mcall" and n["name"] == "encode_base64" for n in ser.nodes())
            okd = de is not None and any(n["k"] == "call" and n["fn"] == ty + "::decode_base64" for n in de.nodes())
            R.judge(oks and okd, prefix + ".H6", "%s serializes via encode_base64 / decode_base64%s" % (ty, tag), "", "",
                    "%s Serialize/Deserialize do not use the paired base64 codec" % ty)
        # store path: store_block writes bincode(block) under block.digest(); readers decode Block
        sb = [f for f in prog.methods_of(CORE) if any(n["k"] == "mcall" and "store::Store::write" in callee_paths(n) for n in f.nodes())]
        R.floor(prefix + ".H6", len(sb), 1, "Core function writing blocks to the store" + tag)
        for f in sb:
            ctx = env.ctx(f)
            for n in f.nodes():
                if n["k"] == "mcall" and "store::Store::write" in callee_paths(n):
                    kt, vt = ctx.term(n["args"][0]), ctx.term(n["args"][1])
                    ok = kt == "«Block».digest().to_vec()" and vt.startswith("bincode::serialize(«Block»)")
                    R.judge(ok, prefix + ".H6", key(f, "block stored as bincode(block) under block.digest()" + tag), n["sp"],
                            "write(%s, %s)" % (kt, vt), "store write is write(%s, %s)" % (kt, vt))
        # readers of block-keyed entries decode to Block
        readers = []
        for f in prog.fns.values():
            if f.derived or not f.path.startswith("consensus::"):
                continue
            for n in f.nodes():
                if n["k"] == "call" and n["fn"].startswith("bincode::") and "deserialize" in n["fn"]:
                    ty = n.get("ty") or ""
                    targs = n.get("targs") or ""
                    if "messages::Block" in ty or "messages::Block" in targs:
                        readers.append((f, n))
        R.floor(prefix + ".H6", len(readers), 2, "decoders of stored blocks (synchronizer, helper)" + tag)
        for (f, n), i in ordinal_keys(readers, lambda x: x[0].path):
            R.ok(prefix + ".H6", key(f, "stored bytes decoded as Block" + tag, i), n["sp"], n.get("ty", ""))
        # helper re-serialises the decoded value unchanged
        hp = prog.fn("consensus::helper::Helper::run")
        if hp is not None:
            ctx = env.ctx(hp)
            sers = [n for n in hp.nodes() if n["k"] == "call" and n["fn"].startswith("bincode::") and "serialize" in n["fn"] and "deserialize" not in n["fn"]]
            for i, n in enumerate(sers):
                t = ctx.term(n["args"][0])
                ok = t.startswith("Propose(bincode::deserialize(") or t.startswith("Propose(")
                R.judge(ok, prefix + ".H6", key(hp, "helper replies with the decoded block unchanged" + tag, i), n["sp"], t,
                        "helper serialises %s instead of the block read from the store" % t)


def check(P, R, tier):
    R.explanation = EXPLANATION
    R.trusted_base = ["SHA-512 collision resistance", "serde-derive + bincode fidelity", "rustc type layout facts ([u8;N], to_le_bytes -> [u8;8])"]
    rules(P, R)
    # the sync path "stored block -> helper -> Propose" serves every stored block with its exact decoded value (C07.Y1)
    from ..common import fold
    fold(R, P, "c07", ("C07.Y1",), "C20.H6", 8)
    # ... and a block looked up by its digest (the parent of a block = the block stored under qc.hash) is the value decoded
    # from the store entry read under THAT digest, never a block found by another attribute such as its round (C05.K4)
    fold(R, P, "c05", ("C05.K4",), "C20.H7", 8)
