"""C17 — Quorum arithmetic: q = floor(2n/3)+1 in both committees, no overflow for n < 2^31, users compare with >=.

O1 is decided exactly: the extracted expression is built from the stake sum S, integer constants, + - * and division
by positive constants, hence quasi-linear (f(S+L) = f(S) + k for L = product of the divisors); equality with the
reference on one full period plus equality of the period increments is equality for every S >= 1.
"""
from fractions import Fraction

from .. import ir
from ..common import Env, call_args, callee_paths, closure_projection, iter_chain, key, ordinal_keys

LEVEL = "proof"
CONFIGS = ("default", "benchmark")
COMMITTEES = ["consensus::config::Committee", "mempool::config::Committee"]
MAX_S = (1 << 31) - 1
TYPE_MAX = {"u8": (1 << 8) - 1, "u16": (1 << 16) - 1, "u32": (1 << 32) - 1, "u64": (1 << 64) - 1, "usize": (1 << 64) - 1,
            "u128": (1 << 128) - 1}
EXPLANATION = (
    "Proof-level for the arithmetic clause: the expression DAG of quorum_threshold is extracted from the type-checked "
    "program; O1 decides f(S) == floor(2S/3)+1 for all S>=1 by quasi-linearity (one period + increment), O2 propagates "
    "intervals through every typed operation for 0<=S<2^31, O3/O4 pin S to the sum over all authorities and stake(unknown)=0, "
    "O5 sibling agreement of both crates, O6 every user compares weight >= threshold, O8 what each user accumulates is the counted member's own stake, O9 (= C19.G1/G2) no authority counted twice. O7 (q>2n/3, q<=n-f, 2q-n>f) is the "
    "paper lemma, re-checked here by exhaustive residue arithmetic on n mod 3.")


class Undecidable(Exception):
    pass


def build_expr(ctx, n, S_pred):
    """Translate an integer expression into a small AST over the symbol S."""
    n0 = n
    n = ctx.origin_node(n)
    if S_pred(n):
        return ("S",)
    k = n["k"]
    if k == "lit" and "int" in (n.get("v") or {}):
        return ("c", n["v"]["int"])
    if k == "bin" and n["op"] in ("+", "-", "*", "/"):
        return (n["op"], build_expr(ctx, n["l"], S_pred), build_expr(ctx, n["r"], S_pred), n.get("ty"), n["sp"])
    if k == "cast":
        return build_expr(ctx, n["e"], S_pred)
    if k == "block" and not n.get("stmts") and "expr" in n:
        return build_expr(ctx, n["expr"], S_pred)
    raise Undecidable("expression `%s` is outside the arithmetic vocabulary (+ - * / over the stake sum and constants)" % ir.pp(n, maxlen=100))


def evaluate(e, S):
    t = e[0]
    if t == "S":
        return S
    if t == "c":
        return e[1]
    a = evaluate(e[1], S)
    b = evaluate(e[2], S)
    if t == "+":
        return a + b
    if t == "-":
        return a - b
    if t == "*":
        return a * b
    if t == "/":
        if b == 0:
            raise Undecidable("division by zero")
        if a < 0 or b < 0:
            raise Undecidable("negative operand in division")
        return a // b
    raise Undecidable(t)


def period(e):
    """Product of constant divisors; raises if a divisor or multiplier is not constant."""
    t = e[0]
    if t in ("S", "c"):
        return 1
    if t == "/":
        if mentions_S(e[2]):
            raise Undecidable("division by a non-constant")
        d = evaluate(e[2], 0)
        if d <= 0:
            raise Undecidable("division by a non-positive constant")
        return period(e[1]) * d
    if t == "*":
        if mentions_S(e[1]) and mentions_S(e[2]):
            raise Undecidable("non-linear product")
    return period(e[1]) * period(e[2])


def mentions_S(e):
    if e[0] == "S":
        return True
    if e[0] == "c":
        return False
    return mentions_S(e[1]) or mentions_S(e[2])


def interval(e, lo, hi, problems):
    """Interval of e for S in [lo, hi]; every typed op is checked against its type's range."""
    t = e[0]
    if t == "S":
        return (lo, hi)
    if t == "c":
        return (e[1], e[1])
    a = interval(e[1], lo, hi, problems)
    b = interval(e[2], lo, hi, problems)
    if t == "+":
        r = (a[0] + b[0], a[1] + b[1])
    elif t == "-":
        r = (a[0] - b[1], a[1] - b[0])
    elif t == "*":
        c = [a[0] * b[0], a[0] * b[1], a[1] * b[0], a[1] * b[1]]
        r = (min(c), max(c))
    else:
        if b[0] <= 0:
            problems.append("divisor interval %s contains 0 at %s" % (b, e[4]))
            return (0, a[1])
        r = (a[0] // b[1], a[1] // b[0])
    ty = e[3]
    mx = TYPE_MAX.get(ty)
    if mx is not None and r[1] > mx:
        problems.append("`%s` overflows %s: value reaches %d > %d for S in [%d, %d] (at %s)" % (t, ty, r[1], mx, lo, hi, e[4]))
    if r[0] < 0:
        problems.append("`%s` underflows (reaches %d) for S in [%d, %d] (at %s)" % (t, r[0], lo, hi, e[4]))
    return r


def show_expr(e):
    if e[0] == "S":
        return "S"
    if e[0] == "c":
        return str(e[1])
    return "(%s %s %s)" % (show_expr(e[1]), e[0], show_expr(e[2]))


def reference(S):
    return 2 * S // 3 + 1


def lemma_O7():
    """q = floor(2n/3)+1 = n - floor((n-1)/3); q > 2n/3; q <= n-f; 2q-n > f  -- by residues n = 3f+1+k."""
    for k in range(3):
        for f in range(0, 50):
            n = 3 * f + 1 + k
            q = reference(n)
            ff = (n - 1) // 3
            if not (ff == f and q == n - f and 3 * q > 2 * n and 2 * q - n > f):
                return False
    return True


def sum_of_all_stakes(ctx, n):
    """n is `authorities.values().map(|x| x.stake).sum()` over ALL authorities."""
    n = ctx.origin_node(n)
    base, chain = iter_chain(n)
    names = [c[0] for c in chain]
    if ctx.term(base) != "self.authorities":
        return False, "base is %s" % ctx.term(base)
    allowed = {"values", "iter", "map", "sum", "cloned", "copied", "into_iter"}
    bad = [x for x in names if x not in allowed]
    if bad:
        return False, "iterator adaptors %s restrict or alter the summed set" % bad
    if not names or names[-1] != "sum":
        return False, "chain does not end in sum(): %s" % names
    maps = [c for c in chain if c[0] == "map"]
    if len(maps) != 1 or not maps[0][1] or maps[0][1][0]["k"] != "closure":
        return False, "expected exactly one projection"
    proj = closure_projection(ctx, maps[0][1][0])
    if "values" in names:
        want = "self.authorities.values()[*].stake"
    else:
        want = "self.authorities[*].1.stake"
    if proj != want:
        return False, "projection is %s, expected %s" % (proj, want)
    return True, "sum over all authorities of .stake"


def rules(P, R, prefix="C17"):
    R.judge(lemma_O7(), prefix + ".O7", "paper lemma (residues of n mod 3)", "", "q=n-f, q>2n/3, 2q-n>f hold for n=3f+1+k, k in 0..2",
            "lemma check failed")
    for cfg, prog in P.items():
        env = Env(prog)
        tag = "" if cfg == "default" else "@" + cfg
        forms = {}
        for C in COMMITTEES:
            qt = prog.fn(C + "::quorum_threshold")
            st = prog.fn(C + "::stake")
            if not R.judge(qt is not None and st is not None, prefix + ".O1", "anchors %s%s" % (C, tag), "", "",
                           "anchor-missing: %s::{quorum_threshold,stake}" % C, reason="anchor-missing"):
                continue
            ctx = env.ctx(qt)
            body = qt.body
            tail = body.get("expr") if body["k"] == "block" else body
            # the symbol S: any sub-expression that is the sum over all stakes
            found = {}

            def S_pred(n, ctx=ctx, found=found):
                base, chain = iter_chain(n)
                if chain and chain[-1][0] in ("sum",):
                    ok, why = sum_of_all_stakes(ctx, n)
                    found[n["sp"]] = (ok, why)
                    return True
                return False
            try:
                if tail is None:
                    raise Undecidable("quorum_threshold has no tail expression")
                e = build_expr(ctx, tail, S_pred)
                L = period(e)
                if L > 10000:
                    raise Undecidable("period %d too large" % L)
                ok = True
                cex = None
                for S in range(1, L + 1 + 3):
                    if evaluate(e, S) != reference(S) or evaluate(e, S + L) - evaluate(e, S) != reference(S + L) - reference(S):
                        ok = False
                        cex = S
                        break
                R.sample({"rule": prefix + ".O1", "fn": qt.path, "expr": show_expr(e), "period": L, "equal_to_reference": ok})
                R.judge(ok, prefix + ".O1", key(qt, "threshold == floor(2S/3)+1" + tag), qt.sp,
                        "f(S) = %s; quasi-linear with period %d; equals floor(2S/3)+1 on a full period and in its increment" % (show_expr(e), L),
                        "quorum_threshold computes %s which differs from floor(2S/3)+1 at S=%s (f=%s, required %s): the property "
                        "pins q uniquely" % (show_expr(e), cex, evaluate(e, cex) if cex else None, reference(cex) if cex else None))
                probs = []
                interval(e, 0, MAX_S, probs)
                R.judge(not probs, prefix + ".O2", key(qt, "no overflow for 0<=S<2^31" + tag), qt.sp,
                        "every typed op of %s stays within its type for S in [0, 2^31-1]" % show_expr(e), "; ".join(probs))
                forms[C] = (show_expr(e), e, L)
            except Undecidable as u:
                R.fail(prefix + ".O1", key(qt, "threshold == floor(2S/3)+1" + tag), qt.sp,
                       "undecidable-shape: %s" % u, reason="undecidable-shape")
            # O3
            R.judge(bool(found) and all(v[0] for v in found.values()), prefix + ".O3", key(qt, "S is the sum over all authorities" + tag), qt.sp,
                    "; ".join(v[1] for v in found.values()),
                    "the stake sum is not over all authorities: %s" % (found or "no sum found"))
            # the sum's accumulator type
            for n in qt.nodes():
                if n["k"] == "mcall" and n["name"] == "sum":
                    R.judge(n.get("ty") == "u32", prefix + ".O2", key(qt, "sum type is u32" + tag), n["sp"], "Stake = u32",
                            "stake sum has type %s, the interval argument assumes u32" % n.get("ty"))
            # O4 stake(unknown) == 0
            sctx = env.ctx(st)
            sb = st.body
            stail = sb.get("expr") if sb["k"] == "block" and not sb.get("stmts") else None
            ok4, why4 = False, "body shape not recognised"
            if stail is not None:
                ok4, why4 = stake_shape(sctx, stail)
            R.judge(ok4, prefix + ".O4", key(st, "stake(unknown)=0, stake(name)=authorities[name].stake" + tag), st.sp, why4,
                    "Committee::stake: " + why4)
        # O5 sibling agreement
        if len(forms) == 2:
            vals = list(forms.values())
            (s1, e1, L1), (s2, e2, L2) = vals
            # same FUNCTION of the total stake (not the same spelling): both are quasi-linear, so agreement on two common
            # periods (values and increments) is agreement everywhere
            LL = L1 * L2
            same = all(evaluate(e1, S) == evaluate(e2, S) for S in range(0, 2 * LL + 4))
            R.judge(same, prefix + ".O5", "both committees compute the same threshold function" + tag, "",
                    "%s == %s on two common periods" % (s1, s2), "consensus computes %s, mempool computes %s: they differ for some total stake" % (s1, s2))
        st1 = prog.aliases.get("consensus::config::Stake")
        st2 = prog.aliases.get("mempool::config::Stake")
        R.judge(st1 == st2 == "u32", prefix + ".O5", "Stake alias is u32 in both crates" + tag, "", "u32",
                "Stake aliases differ or are not u32: consensus=%s mempool=%s" % (st1, st2))
        # O6 users compare with >=
        users = prog.calls_to(*[c + "::quorum_threshold" for c in COMMITTEES])
        users = [(f, n) for f, n in users]
        R.floor(prefix + ".O6", len(users), 6, "call sites of quorum_threshold" + tag)
        for (f, n), i in ordinal_keys(users, lambda x: x[0].path):
            pm = f.parents()
            par = pm.get(id(n))
            # the threshold may first be bound to an immutable local: then every use of that local is judged
            uses = [n]
            if par is not None and par["k"] == "slet" and par["pat"].get("k") == "pbind" and not par["pat"].get("mut"):
                vid = par["pat"]["id"]
                uses = [x for x in f.nodes() if x["k"] == "var" and x.get("id") == vid]
            ok6 = bool(uses)
            how = "parent is %s" % (par["k"] if par else None)
            for u in uses:
                up = pm.get(id(u))
                while up is not None and up["k"] in ("ref",) or (up is not None and up["k"] == "un" and up.get("op") == "*"):
                    u, up = up, pm.get(id(up))
                if up is not None and up["k"] == "bin":
                    op = up["op"]
                    right = up["r"] is u
                    okc = (op == ">=" and right) or (op == "<=" and not right) or (op == "<" and right) or (op == ">" and not right)
                    how = "`%s`" % ir.pp(up, maxlen=120)
                else:
                    okc = False
                    how = "threshold is used by `%s`" % (up["k"] if up else None)
                ok6 = ok6 and okc
            R.judge(ok6, prefix + ".O6", key(f, "weight >= quorum_threshold()" + tag, i), n["sp"], how,
                    "quorum comparison %s is not `weight >= threshold` (or its negation `weight < threshold`)" % how)

        # O8 what a user accumulates and compares with the threshold is a sum of stakes of the counted members
        # ("two quorums share more than f stake" speaks about sets of authorities weighed by their own stake: a site that
        # adds some other stake - its own, a constant - for each counted member forms "quorums" the lemma says nothing about)
        import re
        from .c12 import single_init, strip, waiter_ok
        cmps = []
        for (f, n) in users:
            pm = f.parents()
            par = pm.get(id(n))
            uses = [n]
            if par is not None and par["k"] == "slet" and par["pat"].get("k") == "pbind" and not par["pat"].get("mut"):
                uses = [x for x in f.nodes() if x["k"] == "var" and x.get("id") == par["pat"]["id"]]
            for u in uses:
                up = pm.get(id(u))
                while up is not None and (up["k"] == "ref" or (up["k"] == "un" and up.get("op") == "*")):
                    u, up = up, pm.get(id(up))
                if up is not None and up["k"] == "bin" and up["op"] in (">=", "<=", "<", ">"):
                    other = up["l"] if up["r"] is u else up["r"]
                    while other["k"] == "ref" or (other["k"] == "un" and other.get("op") == "*"):
                        other = other["e"]
                    cmps.append((f, other))
        R.floor(prefix + ".O8", len(cmps), 6, "accumulators compared with the threshold" + tag)
        for (f, acc), i in ordinal_keys(cmps, lambda x: x[0].path):
            ctx = env.ctx(f)
            at = ctx.term(acc)
            if acc["k"] == "var":
                scope = [f]
                ws = [(f, x) for x in f.nodes() if x["k"] in ("assign", "assignop") and x["l"]["k"] == "var" and x["l"]["id"] == acc["id"]]
            else:
                scope = [g for g in prog.methods_of(f.self_ty) if not g.derived] if f.self_ty else [f]
                ws = [(g, x) for g in scope for x in g.nodes() if x["k"] in ("assign", "assignop") and env.ctx(g).term(x["l"]) == at]
            adds = [(g, x) for (g, x) in ws if not (x["k"] == "assign" and (x["r"].get("v") or {}).get("int") == 0)]
            R.judge(bool(adds), prefix + ".O8", key(f, "accumulator `%s` has accumulation sites%s" % (at, tag), i), acc["sp"], "",
                    "nothing is ever added to `%s`, which is compared with the quorum threshold (undecidable-shape)" % at)
            for (g, w), j in ordinal_keys(adds, lambda x: x[0].path):
                gctx = env.ctx(g)
                ok8, why = False, ""
                if not (w["k"] == "assignop" and w["op"].rstrip("=") == "+"):
                    why = "`%s` is not an addition of a member's stake" % ir.pp(w, maxlen=100)
                else:
                    rt = gctx.term(w["r"])
                    m = re.match(r"^(?:self\.committee|«Committee»)\.stake\((?P<K>.+)\)$", rt)
                    if m:
                        K = m.group("K")
                        ok8 = (K.startswith("«") or "[*]" in K) and not K.startswith("self.name")
                        why = "adds stake(%s)" % K if ok8 else "adds stake(%s): not the stake of the member being counted" % K
                    elif w["r"]["k"] == "var" and gctx.defs.get(w["r"]["id"]) and gctx.defs[w["r"]["id"]][0][0] == "expr" \
                            and list(gctx.defs[w["r"]["id"]][1]) == ["Some"]:
                        src = strip(gctx.defs[w["r"]["id"]][0][1])
                        sv = src.get("recv") if src["k"] == "mcall" and src["name"] == "next" else None
                        while sv is not None and sv["k"] == "ref":
                            sv = sv["e"]
                        init = single_init(g, sv) if sv is not None and sv["k"] == "var" else None
                        if init is None:
                            why = "added value `%s` does not come from a once-initialised stream of acknowledgement futures" % ir.pp(w["r"])
                        else:
                            base, chain = iter_chain(init)
                            maps = [c for c in chain if c[0] == "map"]
                            others = [c[0] for c in chain if c[0] not in ("into_iter", "iter", "zip", "map", "collect")]
                            if len(maps) != 1 or others or maps[0][1][0]["k"] != "closure":
                                why = "stream is built by %s: outside the modelled vocabulary (undecidable-shape)" % [c[0] for c in chain]
                            else:
                                tail = maps[0][1][0]["body"]
                                while tail["k"] == "block" and "expr" in tail:
                                    tail = tail["expr"]
                                tt = gctx.term(tail)
                                mm = re.match(r"^(?P<W>[\w:]+)\((?P<H>.+)\[\*\]\.1,self\.committee\.stake\((?P<H2>.+)\[\*\]\.0\)\)$", tt)
                                if not mm or mm.group("H") != mm.group("H2"):
                                    why = "each future is `%s`: not waiter(element.1, self.committee.stake(element.0)) over ONE (name, handle) element" % tt[:300]
                                else:
                                    ok8, why = waiter_ok(prog, env, mm.group("W"))
                                    Z = mm.group("H")
                                    if ok8 and ".zip(" in Z:
                                        # names and handles zipped together: both must stem from the same unzip of (name, address) pairs
                                        zz = re.match(r"^(?P<A>.+)\.unzip\(\)\.0\.zip\(self\.network\.broadcast\((?P<B>.+?)\.unzip\(\)\.1,", Z)
                                        ok8 = bool(zz) and zz.group("A") == zz.group("B")
                                        why = "names and handles come from the same unzip of %s" % zz.group("A")[:80] if ok8 else \
                                            "names are zipped with handles that were not obtained by broadcasting to the addresses of those same names: `%s`" % Z[:300]
                    else:
                        why = "added value `%s` is neither committee.stake(member) nor the result of an acknowledgement future" % rt[:200]
                R.judge(ok8, prefix + ".O8", key(g, "`%s` accumulates the stake of the counted member%s" % (at, tag), j), w["sp"], why[:300],
                        "the weight compared with the quorum threshold is not a sum of the counted members' own stakes: " + why)


def stake_shape(ctx, tail):
    """authorities.get(name) mapped to .stake with None -> literal 0."""
    n = tail
    base, chain = iter_chain(n)
    names = [c[0] for c in chain]
    if ctx.term(base) != "self.authorities" or not chain or chain[0][0] != "get":
        return False, "lookup is not self.authorities.get(..): %s" % ir.pp(n, maxlen=100)
    keyarg = chain[0][1][0]
    if not ctx.term(keyarg).startswith("«PublicKey»"):
        return False, "lookup key is %s, not the queried name" % ctx.term(keyarg)
    rest = chain[1:]

    def is_zero(x):
        x = ctx.origin_node(x)
        if x["k"] == "closure":
            b = x["body"]
            while b["k"] == "block" and not b.get("stmts") and "expr" in b:
                b = b["expr"]
            x = b
        return x["k"] == "lit" and (x.get("v") or {}).get("int") == 0

    def is_proj(x):
        return x["k"] == "closure" and closure_projection(ctx, x).endswith(".stake")
    if len(rest) == 1 and rest[0][0] in ("map_or_else", "map_or") and len(rest[0][1]) == 2:
        if is_zero(rest[0][1][0]) and is_proj(rest[0][1][1]):
            return True, "get(name).%s(0, |x| x.stake)" % rest[0][0]
        return False, "default is not literal 0 or projection is not .stake"
    if len(rest) == 2 and rest[0][0] == "map" and is_proj(rest[0][1][0]):
        if rest[1][0] == "unwrap_or" and is_zero(rest[1][1][0]):
            return True, "get(name).map(|x| x.stake).unwrap_or(0)"
        if rest[1][0] == "unwrap_or_default":
            return True, "get(name).map(|x| x.stake).unwrap_or_default()"
    return False, "shape %s not in the vocabulary" % names


def check(P, R, tier):
    R.explanation = EXPLANATION
    R.trusted_base = ["rustc HIR/typeck for the two functions", "interval rules for + - * / on unsigned integers",
                      "quasi-linearity of expressions built from S, constants, + - *const /const (non-negative operands)"]
    R.assumptions = ["total stake below 2^31 (the property's quantifier)"]
    rules(P, R)
    # "any two quorums share more than f stake" is a statement about SETS of authorities: where the node forms a quorum
    # itself (the aggregators) an authority must be rejected as a duplicate before its stake is counted (C19.G1/G2)
    from ..common import fold
    fold(R, P, "c19", ("C19.G1", "C19.G2"), "C17.O9", 8)
