"""C11 — Batching keeps every transaction once, in order; batches are content-addressed (structural clauses)."""
import re

from .. import ir
from ..analysis import And, Atom, Not, Or, T, atoms_of, cmp_formula, implies, show, uncond_subnodes, sure_subnodes
from ..common import Env, call_args, callee_paths, key, ordinal_keys, MPSC_SEND, MPSC_RECV
from ..paths import enum_paths, TooManyPaths
from ..panics import PanicAnalysis
from ..wiring import Wiring

LEVEL = "other"
CONFIGS = ("default", "benchmark")
BM = "mempool::batch_maker::BatchMaker"
PROC = "mempool::processor::Processor"
EXPLANATION = (
    "Static rules, evaluated in the default and in the `benchmark` feature configuration: (B1) in the transaction arm of "
    "BatchMaker::run the received transaction is appended with Vec::push (tail) and its len() added to current_batch_size exactly "
    "once on every path, and the client frame reaches the batch maker as the unmodified received bytes; (B2) seal() is called in "
    "that arm exactly when current_batch_size >= batch_size, after the push; (B3) seal drains the FULL batch once "
    "(drain(..) -> Batch -> bincode::serialize), resets current_batch_size to 0 on the straight-line path, and no other code "
    "consumes or reorders current_batch; (B4) the Processor stores the received bytes under SHA-512[..32] of those same bytes and "
    "announces that same digest after the write; the peer path forwards the received frame bytes (not a re-serialisation), the own "
    "path forwards the broadcast bytes (C12.Q2/Q3); (B5) the timer arm seals a non-empty batch and re-arms the timer on every "
    "path, and the timer is re-armed ONLY where the timer fired or a seal just happened (a reset on a plain transaction path would "
    "postpone the max-delay seal indefinitely); (B6) every panic-capable MIR site of the batching path is discharged in both "
    "configurations (shared engine with C15). Seal timing itself and bincode fidelity are not decided.")

BATCH_MUT = {"push", "insert", "remove", "swap_remove", "pop", "drain", "clear", "truncate", "retain", "reverse", "sort", "sort_by",
             "sort_unstable", "dedup", "append", "extend", "split_off", "swap", "rotate_left", "rotate_right", "iter_mut", "as_mut_slice"}


def is_drain(ctx, n, CB):
    """`CB.drain(..)` or `mem::take(&mut CB)`: the open batch is moved out (which range / what is done with it is judged on
    the canonical term of the serialised message)."""
    if n["k"] == "mcall" and n["name"] == "drain":
        return ctx.term(n["recv"]) == CB
    return n["k"] == "call" and n.get("fn") in ("core::mem::take", "std::mem::take") and len(n["args"]) == 1 and ctx.term(n["args"][0]) == CB


def rules(P, R, prefix="C11"):
    for cfg, prog in P.items():
        env = Env(prog)
        W = Wiring(prog, env)
        tag = "" if cfg == "default" else "@" + cfg
        st = prog.structs.get(BM)
        bfns = [f for f in prog.methods_of(BM) if not f.derived]
        if not R.judge(st is not None and bfns, prefix + ".B1", "anchor BatchMaker" + tag, "", "", "anchor-missing: " + BM, reason="anchor-missing"):
            continue
        # identify the batch field (Vec<Vec<u8>>) and the size field (usize)
        vfields = [fl["name"] for fl in st["fields"] if re.match(r"^alloc::vec::Vec<alloc::vec::Vec<u8>>$", fl["ty"])]
        if not R.judge(len(vfields) == 1, prefix + ".B1", "open batch field" + tag, "", str(vfields), "BatchMaker has %d Vec<Vec<u8>> fields (undecidable-shape)" % len(vfields),
                       reason="undecidable-shape"):
            continue
        CB = "self." + vfields[0]
        run = next((f for f in bfns if any(n["k"] == "select" for n in f.nodes())), None)
        seal = next((f for f in bfns if any(is_drain(env.ctx(f), n, CB) for n in f.nodes())), None)
        if not R.judge(run is not None and seal is not None, prefix + ".B1", "anchors run loop / sealing function" + tag, "", "",
                       "anchor-missing: select loop or the function draining %s" % CB, reason="anchor-missing"):
            continue
        ctx = env.ctx(run)
        flow = env.flow(run)
        sel = [n for n in run.nodes() if n["k"] == "select"][0]
        tx_b = timer_b = None
        for b in sel["branches"]:
            fut = b.get("fut")
            if fut is not None and any(x["k"] == "mcall" and MPSC_RECV in callee_paths(x) for x in ir.walk(fut)):
                tx_b = b
            elif fut is not None:
                timer_b = b
        if not R.judge(tx_b is not None and timer_b is not None, prefix + ".B1", "transaction arm and timer arm" + tag, sel["sp"], "", "anchor-missing", reason="anchor-missing"):
            continue
        TX = "sel(%s).Some" % ctx.term(tx_b["fut"])
        # mutations of the open batch anywhere in BatchMaker
        muts = []
        for f in bfns:
            c2 = env.ctx(f)
            for n in f.nodes():
                if n["k"] == "mcall" and n["name"] in BATCH_MUT and c2.term(n["recv"]) == CB:
                    muts.append((f, n))
                if n["k"] in ("assign",) and c2.term(n["l"]) == CB:
                    muts.append((f, n))
                if n["k"] == "call" and is_drain(c2, n, CB):
                    muts.append((f, n))
                if n["k"] == "ref" and n.get("mut") and c2.term(n["e"]) == CB and not any(a["k"] == "mcall" and a["recv"] is n for a in f.ancestors(n)):
                    par = f.parents().get(id(n))
                    if not (par is not None and par["k"] == "mcall" and par["recv"] is n) and not (par is not None and par["k"] == "call" and is_drain(c2, par, CB)):
                        muts.append((f, n))
        R.floor(prefix + ".B3", len(muts), 2, "mutations of the open batch" + tag)
        for (f, n), i in ordinal_keys(muts, lambda x: (x[0].path, x[1].get("name", x[1]["k"]))):
            nm = n.get("name", n["k"])
            ok = (f is run and nm == "push" and any(x is n for x in ir.walk(tx_b["body"]))) or (f is seal and is_drain(env.ctx(f), n, CB))
            R.judge(ok, prefix + ".B3", key(f, "open batch only appended (tx arm) and drained (seal): %s%s" % (nm, tag), i), n["sp"], "",
                    "%s.%s in %s: transactions can be reordered, dropped or duplicated outside push/drain(..)" % (CB, nm, f.path))

        # ---------------- B1 every transaction appended once, counted once
        try:
            paths = enum_paths(ctx, tx_b["body"])
        except TooManyPaths:
            paths = None
        if R.judge(paths is not None, prefix + ".B1", key(run, "transaction arm paths enumerable" + tag), tx_b["body"]["sp"], "", "too many paths", reason="undecidable-shape"):
            bad = []
            for p in paths:
                if p.exit == "panic":
                    continue
                pushes = [e for e in p.events if e["k"] == "mcall" and e["name"] == "push" and ctx.term(e["recv"]) == CB]
                adds = [e for e in p.events if e["k"] == "assignop" and ctx.term(e["l"]).endswith("_size") or (e["k"] == "assignop" and "size" in ctx.term(e["l"]))]
                okp = len(pushes) == 1 and ctx.term(pushes[0]["args"][0]) == TX
                oka = len(adds) == 1 and adds[0]["op"].rstrip("=") == "+" and ctx.term(adds[0]["r"]) == TX + ".len()"
                if not okp:
                    bad.append("path [%s]: %d push(es) of the transaction %s" % (show(p.cond())[:100], len(pushes), [ctx.term(e["args"][0]) for e in pushes]))
                if not oka:
                    bad.append("path [%s]: size accounting %s" % (show(p.cond())[:100], [ir.pp(e) for e in adds]))
            R.judge(not bad, prefix + ".B1", key(run, "received transaction pushed at the tail and counted exactly once on every path" + tag), tx_b["body"]["sp"],
                    "%d paths" % len(paths), "; ".join(bad)[:500])
            R.sample({"rule": prefix + ".B1", "transaction": TX, "paths": len(paths)})
        # the transaction handed to the batch maker is the received frame
        txh = [f for f in prog.fns.values() if f.trait == "network::receiver::MessageHandler" and f.name == "dispatch" and "TxReceiverHandler" in f.path]
        if R.judge(len(txh) == 1, prefix + ".B1", "anchor TxReceiverHandler::dispatch" + tag, "", "", "anchor-missing", reason="anchor-missing"):
            h = txh[0]
            hc = env.ctx(h)
            ss = [n for n in h.nodes() if n["k"] == "mcall" and MPSC_SEND in callee_paths(n)]
            R.floor(prefix + ".B1", len(ss), 1, "hand-over of client transactions" + tag)
            for i, n in enumerate(ss):
                pt = hc.term(n["args"][0])
                R.judge(pt in ("«Bytes».to_vec()", "«Bytes»"), prefix + ".B1", key(h, "client frame forwarded byte-for-byte" + tag, i), n["sp"], pt,
                        "the transaction handed to the batch maker is `%s`, not the received frame" % pt)
                pc = env.flow(h).pathcond(n)
                R.judge(pc == T or all(a.startswith(("ok(", "some(")) for a in atoms_of(pc)), prefix + ".B1", key(h, "every client frame is forwarded" + tag, i), n["sp"], show(pc),
                        "client transactions are forwarded only under %s" % show(pc))

        # ---------------- B2 size trigger
        seals_tx = [n for n in ir.walk(tx_b["body"]) if n["k"] == "mcall" and seal.path in callee_paths(n)]
        R.floor(prefix + ".B2", len(seals_tx), 1, "size-triggered seal" + tag)
        for i, n in enumerate(seals_tx):
            outer = flow.pathcond(sel)
            oc = outer[1] if outer[0] == "and" else [outer]
            armc = [ctx.pat_test(tx_b["pat"], "sel(" + ctx.term(tx_b["fut"]) + ")")] if tx_b.get("pat") is not None else []
            pcb = flow.pathcond(n)
            inner = And(*[c for c in (pcb[1] if pcb[0] == "and" else [pcb]) if c not in oc and c not in armc])
            sizes = [fl["name"] for fl in st["fields"] if fl["ty"] == "usize" and "size" in fl["name"]]
            req = None
            for a in sizes:
                for b in sizes:
                    if a != b and "current" in a:
                        req = cmp_formula(">=", "self." + a, "self." + b)
            ok = req is not None
            if ok:
                fwd, _ = implies(req, inner)
                bwd, _ = implies(inner, req)
                ok = fwd and bwd
            doms = flow.dominators(n)
            pushed = any(d["k"] == "mcall" and d["name"] == "push" and ctx.term(d["recv"]) == CB for d in doms)
            counted = any(d["k"] == "assignop" and ctx.term(d["r"]) == TX + ".len()" for d in doms)
            R.judge(ok, prefix + ".B2", key(run, "seal exactly when current_batch_size >= batch_size" + tag, i), n["sp"], show(inner),
                    "seal() in the transaction arm is reached under `%s`, required `%s`" % (show(inner), show(req) if req else "size >= batch_size"))
            R.judge(pushed and counted, prefix + ".B2", key(run, "size test after the transaction was appended and counted" + tag, i), n["sp"], "",
                    "the size-triggered seal is not preceded by the push and the size update of the current transaction")

        # ---------------- B3 seal drains everything once
        sc = env.ctx(seal)
        drains = [n for n in seal.nodes() if is_drain(sc, n, CB)]
        R.judge(len(drains) == 1, prefix + ".B3", key(seal, "single drain of the open batch" + tag), seal.sp, str(len(drains)), "%d drains of the open batch in seal" % len(drains))
        sers = [n for n in seal.nodes() if n["k"] == "call" and n.get("fn", "").startswith("bincode::") and "serialize" in n["fn"]]
        R.floor(prefix + ".B3", len(sers), 1, "serialisation of the sealed batch" + tag)
        want = "bincode::serialize(Batch(%s.drain(RangeFull{}).collect()))" % CB
        okser = [n for n in sers if sc.term(n) == want]
        R.judge(len(okser) == 1 and len(sers) == 1, prefix + ".B3", key(seal, "batch message = Batch(current_batch.drain(..)) in order" + tag), sers[0]["sp"] if sers else seal.sp,
                sc.term(sers[0]) if sers else "", "seal serialises `%s`; required `%s` (full-range drain, no filter/reorder)" % ([sc.term(n)[:200] for n in sers], want))
        for i, d in enumerate(drains):
            pc = env.flow(seal).pathcond(d)
            R.judge(pc == T, prefix + ".B3", key(seal, "drain is unconditional" + tag, i), d["sp"], show(pc), "the drain happens only under %s" % show(pc))
        resets = [n for n in seal.nodes() if n["k"] == "assign" and "size" in sc.term(n["l"]) and sc.term(n["l"]).startswith("self.")]
        okr = [n for n in resets if sc.term(n["r"]) == "0" and env.flow(seal).pathcond(n) == T]
        R.judge(len(okr) >= 1 and len(okr) == len(resets), prefix + ".B3", key(seal, "current_batch_size reset to 0 on every seal" + tag), seal.sp, str([ir.pp(n) for n in resets]),
                "seal does not unconditionally reset the byte counter to 0: %s" % [ir.pp(n) for n in resets])
        # the serialized bytes are what is broadcast and handed on (pairing is C12.Q3)
        bc = [n for n in seal.nodes() if n["k"] == "mcall" and "network::reliable_sender::ReliableSender::broadcast" in callee_paths(n)]
        R.floor(prefix + ".B3", len(bc), 1, "broadcast of the sealed batch" + tag)
        for i, n in enumerate(bc):
            R.judge(sc.term(n["args"][1]) == want, prefix + ".B3", key(seal, "the serialized batch is what is broadcast" + tag, i), n["sp"], sc.term(n["args"][1])[:120],
                    "broadcast payload `%s` is not the serialized drained batch" % sc.term(n["args"][1])[:200])

        # ---------------- B4 content addressing in the Processor
        ps = prog.fn(PROC + "::spawn")
        if R.judge(ps is not None, prefix + ".B4", "anchor Processor::spawn" + tag, "", "", "anchor-missing", reason="anchor-missing"):
            pc_ = env.ctx(ps)
            wr = [n for n in ps.nodes() if n["k"] == "mcall" and "store::Store::write" in callee_paths(n)]
            sd = [n for n in ps.nodes() if n["k"] == "mcall" and MPSC_SEND in callee_paths(n)]
            R.floor(prefix + ".B4", len(wr), 1, "store write in the Processor" + tag)
            R.floor(prefix + ".B4", len(sd), 1, "digest announcement in the Processor" + tag)
            for i, n in enumerate(wr):
                kt, vt = pc_.term(n["args"][0]), pc_.term(n["args"][1])
                want_k = "Digest(digest::digest::Digest::digest(%s)[RangeTo{end:32}].try_into()).to_vec()" % vt
                hty = " ".join(str(x.get("ty", "")) + " " + " ".join(callee_paths(x)) + " " + str(x.get("targs", "")) for x in ps.nodes() if x["k"] == "call" and "Digest::digest" in x.get("fn", ""))
                R.judge(kt == want_k and vt.endswith(".recv().Some") and "Sha512" in hty, prefix + ".B4", key(ps, "stored under SHA-512[..32] of exactly the stored bytes" + tag, i),
                        n["sp"], kt[:160], "store.write(%s, %s): the key is not the 32-byte SHA-512 prefix of the very bytes stored" % (kt[:200], vt))
                for j, s_ in enumerate(sd):
                    dt = pc_.term(s_["args"][0])
                    R.judge(dt + ".to_vec()" == kt, prefix + ".B4", key(ps, "announced digest = store key" + tag, j), s_["sp"], dt[:120],
                            "the digest announced to consensus `%s` is not the key the batch was stored under" % dt[:200])
                    doms = env.flow(ps).dominators(s_)
                    R.judge(any(d is n for d in doms) and any(d["k"] == "await" and d["e"] is n for d in doms), prefix + ".B4",
                            key(ps, "write awaited before the digest is announced" + tag, j), s_["sp"], "", "the digest is announced before store.write completed")
            # "every batch, own or received, is stored and announced": both happen on every iteration of the receive loop
            wl = next((n for n in ps.nodes() if n["k"] in ("while", "loop")), None)
            if R.judge(wl is not None, prefix + ".B4", key(ps, "receive loop found" + tag), ps.sp, "", "no receive loop in Processor::spawn (undecidable-shape)"):
                from ..common import inner_cond
                from ..analysis import T as _T, show as _show
                from ..common import exit_on_channel_close
                exits = [x for x in ir.walk(wl["body"], into_closures=False) if x["k"] in ("break", "ret") and not exit_on_channel_close(env, ps, wl, x)]
                R.judge(not exits, prefix + ".B4", key(ps, "receive loop has no exit" + tag), wl["sp"], "",
                        "the Processor leaves its loop at %s: later batches are neither stored nor announced" % [x["sp"] for x in exits])
                # (facts of the form "this unwrap()/expect() did not panic" are not conditions: the panic sites are C15's)
                from ..analysis import strip_ok_wrappers, atoms_of as _atoms, And as _And
                unwrapped = set()
                for x in ps.nodes():
                    if x["k"] == "mcall" and x["name"] in ("unwrap", "expect"):
                        t_ = pc_.term(strip_ok_wrappers(x["recv"]))
                        unwrapped |= {"ok(%s)" % t_, "some(%s)" % t_}
                for what, nodes in (("stored", wr), ("announced", sd)):
                    for i, n in enumerate(nodes):
                        ic = inner_cond(env.flow(ps), n, wl["body"])
                        cj = ic[1] if ic[0] == "and" else [ic]
                        # ("a batch was received" - `some(rx.recv())` of a `loop { match rx.recv() .. }` - is not a condition either)
                        ic = _And(*[c for c in cj if not (c[0] == "atom" and (c[1] in unwrapped or (c[1].startswith("some(") and c[1].endswith(".recv())"))))])
                        R.judge(ic == _T, prefix + ".B4", key(ps, "every received batch is %s%s" % (what, tag), i), n["sp"], "",
                                "a batch is %s only under `%s`: some batches (own or received) are dropped by the Processor" % (what, _show(ic)))
        # peer path: received frame forwarded unchanged
        mh = [f for f in prog.fns.values() if f.trait == "network::receiver::MessageHandler" and f.name == "dispatch" and "MempoolReceiverHandler" in f.path]
        if R.judge(len(mh) == 1, prefix + ".B4", "anchor MempoolReceiverHandler::dispatch" + tag, "", "", "anchor-missing", reason="anchor-missing"):
            h = mh[0]
            hc = env.ctx(h)
            proc_ch = set()
            for (g, c) in prog.calls_to(PROC + "::spawn"):
                for (cid, end) in W.ep(g, c["args"][1]):
                    proc_ch.add(cid)
            ss = [(n, cs) for (f, n, cs, p) in W.send_sites if f is h and cs & proc_ch]
            R.floor(prefix + ".B4", len(ss), 1, "peer batches handed to the Processor" + tag)
            for i, (n, cs) in enumerate(ss):
                pt = hc.term(n["args"][0])
                R.judge(pt in ("«Bytes».to_vec()", "«Bytes»"), prefix + ".B4", key(h, "peer batch forwarded as the received bytes" + tag, i), n["sp"], pt,
                        "a received batch is handed to the Processor as `%s`, not as the exact frame bytes: it would be stored under the hash of different bytes" % pt[:160])

        # ---------------- B5 timer trigger
        tbody = timer_b["body"]
        seals_t = [n for n in ir.walk(tbody) if n["k"] == "mcall" and seal.path in callee_paths(n)]
        R.floor(prefix + ".B5", len(seals_t), 1, "timer-triggered seal" + tag)
        for i, n in enumerate(seals_t):
            outer = flow.pathcond(sel)
            oc = outer[1] if outer[0] == "and" else [outer]
            pcb = flow.pathcond(n)
            inner = And(*[c for c in (pcb[1] if pcb[0] == "and" else [pcb]) if c not in oc])
            req = Not(Atom("empty(%s)" % CB))
            fwd, _ = implies(req, inner)
            R.judge(fwd, prefix + ".B5", key(run, "timer expiry seals every non-empty batch" + tag, i), n["sp"], show(inner),
                    "on timer expiry seal() is reached only under `%s` (required: whenever the batch is non-empty)" % show(inner))
        resets = [n for n in run.nodes() if n["k"] == "mcall" and n["name"] == "reset" and "Sleep::reset" in " ".join(callee_paths(n))]
        in_timer = [n for n in resets if any(x is n for x in ir.walk(tbody))]
        unc = [n for n in sure_subnodes(tbody) if any(n is r for r in resets)]
        R.judge(bool(unc), prefix + ".B5", key(run, "timer re-armed on every path of the timer arm" + tag), tbody["sp"], "", "the timer arm does not unconditionally re-arm the seal timer")
        # "sealed as soon as ... the maximum delay elapses": every re-arm sets the deadline to now + max_batch_delay (a deadline
        # computed from the previous deadline drifts into the future after size-triggered seals)
        for r, i in ordinal_keys(resets, lambda x: 0):
            dt = ctx.term(r["args"][0]) if r.get("args") else ""
            a0 = ctx.origin_node(r["args"][0]) if r.get("args") else None
            if a0 is not None and a0["k"] == "mcall" and not a0["args"] and ctx.term(a0["recv"]) == "self":
                # a parameterless helper method computing the deadline: judge its body
                for p_ in callee_paths(a0):
                    g = prog.fns.get(p_)
                    if g is not None and g.body["k"] == "block" and not g.body.get("stmts") and "expr" in g.body:
                        dt = env.ctx(g).term(g.body["expr"])
            okd = "Instant::now()" in dt and "self.max_batch_delay" in dt and "deadline()" not in dt and dt.count("Duration::from_millis(") == 1 \
                and re.sub(r"\s", "", dt) in ("(tokio::time::instant::Instant::now()+core::time::Duration::from_millis(self.max_batch_delay))",
                                               "(core::time::Duration::from_millis(self.max_batch_delay)+tokio::time::instant::Instant::now())")
            R.judge(okd, prefix + ".B5", key(run, "re-armed to now + max_batch_delay" + tag, i), r["sp"], dt[:160],
                    "the seal timer is re-armed to `%s`, not to Instant::now() + max_batch_delay: a batch can stay open longer than the maximum delay" % dt[:200])
        for r, i in ordinal_keys(resets, lambda x: 0):
            if any(r is x for x in in_timer):
                R.ok(prefix + ".B5", key(run, "reset site: timer arm" + tag, i), r["sp"], "")
                continue
            doms = flow.dominators(r)
            after_seal = any(d["k"] == "mcall" and seal.path in callee_paths(d) for d in doms)
            inside_sel = any(x is r for x in ir.walk(sel))
            R.judge(after_seal and inside_sel, prefix + ".B5", key(run, "reset site: only right after a seal" + tag, i), r["sp"], "",
                    "the seal timer is re-armed on a path where neither the timer fired nor a batch was just sealed: a trickle of transactions "
                    "faster than max_batch_delay postpones the seal indefinitely")

        from ..common import fresh_timer_arms
        fta = fresh_timer_arms(bfns)
        for (f_, n_, b_), i in ordinal_keys(fta, lambda x: x[0].path):
            R.fail(prefix + ".B5", key(f_, "seal timer is created outside the loop" + tag, i), n_["sp"],
                   "the seal timer is created in the select! arm itself (`%s`): every transaction restarts it, so a trickle of transactions faster "
                   "than max_batch_delay is never sealed" % ir.pp(b_["fut"], maxlen=80))
        R.ok(prefix + ".B5", "no per-iteration seal timer" + tag + " (%d found)" % len(fta), "", "")
        # ---------------- B6 panic freedom of the batching path (both configs)
        roots = ["node::node::Node::new"]
        PA = PanicAnalysis(prog, cfg, roots, env, W)
        from .c15 import auth_status
        PA.auth_status = {}
        mine = [s for s in PA.sites if s.root.startswith((BM + "::", PROC + "::")) or "TxReceiverHandler" in s.root]
        R.floor(prefix + ".B6", len(mine), 3, "panic-capable sites in the batching path" + tag)
        for s in mine:
            d = PA.discharge(s)
            if d is None and s.kind in ("expect", "unwrap", "panic") and PA._send_under(s) is not None:
                # channel-liveness sites are C15's (actor immortality); not input-dependent on the batching data path
                R.ok(prefix + ".B6", "%s|%s%s" % (s.root, s.sig, tag), s.sp, "PEER (decided by C15's actor fixpoint)")
                continue
            R.judge(d is not None, prefix + ".B6", "%s|%s%s" % (s.root, s.sig, tag), s.sp, "%s: %s" % d if d else "",
                    "undischarged panic site in the batching path: %s (%s %s) %s" % (s.sig, s.kind, s.what, getattr(s, "detail", "")))


def check(P, R, tier):
    R.explanation = EXPLANATION
    R.assumptions = ["bincode serialisation of Vec<Vec<u8>> is order preserving and byte-faithful", "tokio mpsc is FIFO (arrival order = channel order)",
                     "when the seal timer fires is timing and not decided"]
    rules(P, R)
    # "every transaction a node accepts from a client - any byte string, including an empty one": a client transaction is a
    # frame on the transactions socket, so the shared network Receiver must hand EVERY frame, in order, to the handler (C14.F7)
    from ..common import fold
    fold(R, P, "c14", ("C14.F7",), "C11.B7", 10)
