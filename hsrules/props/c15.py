"""C15 — No network input can crash a node or take one of its services down.

Every panic-capable MIR terminator (Assert bounds/overflow/div, unwrap/expect, panic!, Index::index, slice/Vec
range APIs, Iterator::sum, Instant+Duration) in the node universe must be discharged by a machine-checked rule;
plus N1..N4 (error locality, fallible decode, cross-component keys, unknown senders) and service immortality.
"""
from .. import ir
from ..analysis import peel_ty, diverges, atoms_of
from ..common import Env, call_args, callee_paths, key, ordinal_keys
from ..panics import PanicAnalysis
from ..wiring import Wiring, MPSC_RECV

LEVEL = "other"
CONFIGS = ("default", "benchmark")
ROOTS = ["node::node::Node::new", "node::node::Node::analyze_block",
         "crypto::PublicKey::decode_base64", "crypto::SecretKey::decode_base64",
         "<crypto::Digest as core::convert::TryFrom<&[u8]>>::try_from"]
EXPLANATION = (
    "A10 panic-site enumeration over pre-borrowck MIR of every function reachable (call graph + trait dispatch + "
    "generic instantiation edges + spawned tasks) from Node::new and the named decoders, in both feature "
    "configurations; each site is discharged by CONST / GUARD / SER / EXH / PEER / SELECT / AUTH / ENV / LIB rules "
    "evaluated on the type-checked program, actor immortality is a greatest fixpoint over the task graph. "
    "Panics inside third-party crates are trusted; allocation failure is out of scope.")

# services the property names: (label, predicate on actor id)
SERVICES = [
    ("process proposals (consensus core)", "consensus::core::Core::spawn"),
    ("answer block sync requests (consensus helper)", "consensus::helper::Helper::spawn"),
    ("answer batch requests (mempool helper)", "mempool::helper::Helper::spawn"),
    ("batch client transactions (batch maker)", "mempool::batch_maker::BatchMaker::spawn"),
    ("store/announce batches (processors)", "mempool::processor::Processor::spawn"),
    ("accept connections (network receiver)", "network::receiver::Receiver::<Handler>::spawn"),
    ("store", "store::Store::new"),
]


def auth_status(P):
    """Evaluate the rules of the other properties that AUTH discharges lean on."""
    from ..report import Report
    status = {}
    mods = []
    for name in ("c03", "c04", "c05", "c07", "c09", "c10", "c12", "c14", "c16", "c17", "c19"):
        try:
            mods.append(__import__("hsrules.props." + name, fromlist=["rules"]))
        except ImportError:
            continue
    for m in mods:
        R = Report("aux", "quick")
        try:
            m.rules(P, R)
        except Exception as e:  # a crashing dependency fails closed
            status["crash:" + m.__name__] = False
            continue
        per = {}
        for r in R.rules:
            per.setdefault(r["rule"], []).append(r["ok"])
        for rid, oks in per.items():
            status[rid] = all(oks) and status.get(rid, True)
    return status


def rules(P, R, prefix="C15", auth=None):
    auth = auth if auth is not None else auth_status(P)
    auth = dict(auth)
    auth["C15.ENV-OWN-KEY"] = all(own_key_rule(prog, R, prefix, "" if cfg == "default" else "@" + cfg) for cfg, prog in P.items())
    total_sites = 0
    classes = {}
    for cfg, prog in P.items():
        env = Env(prog)
        W = Wiring(prog, env)
        tag = "" if cfg == "default" else "@" + cfg
        PA = PanicAnalysis(prog, cfg, ROOTS, env, W)
        PA.auth_status = auth
        R.stat("universe_fns_" + cfg, len(PA.universe))
        R.stat("panic_sites_" + cfg, len(PA.sites))
        R.floor(prefix + ".A10", len(PA.sites), 150, "panic-capable MIR sites in the node universe" + tag)
        status = PA.immortal()
        dependent = {}      # dead actor id -> channel-liveness sites that become reachable
        for s in PA.sites:
            total_sites += 1
            d = PA.discharge(s)
            if d is None:
                deps = PA.peer_dependencies(s)
                dead = sorted(a for a in (deps or ()) if not status.get(a, [False])[0])
                if deps is not None and dead:
                    # secondary: reachable only because a peer task can die; reported once per dead task below
                    for a in dead:
                        dependent.setdefault(a, []).append(s)
                    R.ok(prefix + ".A10", "%s|%s%s" % (s.root, s.sig, tag), s.sp, "PEER-DEPENDENT: reachable only if task(s) %s die (reported under SVC)" % dead)
                    continue
            if d is not None:
                classes[d[0]] = classes.get(d[0], 0) + 1
                R.ok(prefix + ".A10", "%s|%s%s" % (s.root, s.sig, tag), s.sp, "%s: %s" % d)
                if len(R.samples) < 25 and d[0] not in ("LIB",):
                    R.sample({"site": s.sp, "function": s.root, "op": s.sig, "class": d[0], "why": d[1][:200]})
            else:
                detail = getattr(s, "detail", "")
                R.fail(prefix + ".A10", "%s|%s%s" % (s.root, s.sig, tag), s.sp,
                       "undischarged panic site in %s: %s (%s %s). %s" % (
                           s.root, s.sig, s.kind, s.what, detail or "no CONST/GUARD/SER/EXH/PEER/SELECT/AUTH/ENV rule applies"),
                       mir_def=s.mdef)
        # every task that some channel-liveness site depends on must stay up
        named = set()
        for label, aid in SERVICES:
            named |= {a.id for a in W.actors if a.id == aid or a.id.startswith(aid + "~")}
        for aid, sites_ in sorted(dependent.items()):
            if aid in named:
                continue
            ok_, why_ = status.get(aid, [False, "not analysed"])
            R.fail(prefix + ".SVC", "%s stays up%s" % (aid, tag), "", "task %s can be taken down: %s; %d channel-liveness site(s) then panic "
                   "in other tasks (first: %s in %s)" % (aid, why_, len(sites_), sites_[0].sig, sites_[0].root))
        # service immortality (the second sentence of the property)
        for label, aid in SERVICES:
            acts = [a for a in W.actors if a.id == aid or a.id.startswith(aid + "~")]
            if not R.judge(bool(acts), prefix + ".SVC", "actor exists: " + aid + tag, "", "",
                           "anchor-missing: no spawned task found for service `%s`" % label, reason="anchor-missing"):
                continue
            for a in acts:
                ok, why = status.get(a.id, [False, "not analysed"])
                R.judge(ok, prefix + ".SVC", "%s stays up%s" % (a.id, tag), a.node["sp"], why,
                        "service `%s` (%s) can be taken down: %s" % (label, a.id, why))
        # unused suppressions / auth entries are reported as notes (stale table rows)
        n_rules(prog, env, W, R, prefix, tag)
    R.stat("discharge_classes", classes)
    R.stat("sites_total", total_sites)


def own_key_rule(prog, R, prefix, tag):
    """ENV-OWN-KEY: the function that spawns the consensus core first resolves the node's own key in the
    committee with a start-up expect, so the committee is non-empty whenever the core runs."""
    env = Env(prog)
    ok_all = True
    sites = prog.calls_to("consensus::core::Core::spawn")
    sites = [(f, n) for f, n in sites if not f.derived]
    if not R.judge(bool(sites), prefix + ".ENV-OWN-KEY", "Core::spawn call site" + tag, "", "",
                   "anchor-missing: no call of consensus::core::Core::spawn", reason="anchor-missing"):
        return False
    for (f, n), i in ordinal_keys(sites, lambda x: x[0].path):
        ctx = env.ctx(f)
        flow = env.flow(f)
        name_t = ctx.term(n["args"][0]) if n["args"] else "?"
        doms = flow.dominators(n)
        hit = [d for d in doms if d["k"] == "mcall" and d["name"] in ("expect", "unwrap") and d["recv"]["k"] == "mcall"
               and d["recv"]["name"] in ("address", "stake") and d["recv"]["args"] and ctx.term(d["recv"]["args"][0]) == name_t]
        ok = R.judge(bool(hit), prefix + ".ENV-OWN-KEY", key(f, "own key resolved in the committee before Core::spawn" + tag, i), n["sp"],
                     "committee.address(&%s).expect(..) precedes Core::spawn(%s, ..)" % (name_t, name_t),
                     "no start-up lookup of the node's own key (%s) in the committee precedes Core::spawn: an empty committee "
                     "would reach `round %% 0`" % name_t)
        ok_all = ok_all and ok
    return ok_all


def n_rules(prog, env, W, R, prefix, tag):
    # ---------------- N1 dispatch errors are local to the connection task
    from ..common import receiver_fns
    run, runner = receiver_fns(prog)
    if R.judge(runner is not None and run is not None, prefix + ".N1", "receiver anchors" + tag, "", "",
               "anchor-missing: network Receiver::run / spawn_runner", reason="anchor-missing"):
        dsp = [n for n in runner.nodes() if n["k"] == "mcall" and n.get("fn") == "network::receiver::MessageHandler::dispatch"]
        R.floor(prefix + ".N1", len(dsp), 1, "dispatch call in spawn_runner" + tag)
        for i, n in enumerate(dsp):
            inside_spawn = any(a["k"] == "call" and a.get("fn") == "tokio::task::spawn::spawn" for a in runner.ancestors(n))
            R.judge(inside_spawn, prefix + ".N1", key(runner, "dispatch runs in per-connection task" + tag, i), n["sp"],
                    "handler.dispatch is awaited inside the per-connection tokio::spawn",
                    "dispatch is executed by the accept loop itself: one failing connection stalls or ends all of them")
            # its error is matched, not unwrapped
            pm = runner.parents()
            par = pm.get(id(n))
            while par is not None and par["k"] in ("await",):
                par = pm.get(id(par))
            okp = par is not None and par["k"] in ("let", "match", "if", "slet")
            R.judge(okp, prefix + ".N1", key(runner, "dispatch error is handled as a value" + tag, i), n["sp"],
                    "result of dispatch is matched", "result of dispatch is not matched/propagated (%s)" % (par["k"] if par else None))
        # accept loop never exits
        loops = [n for n in run.nodes() if n["k"] == "loop"]
        R.floor(prefix + ".N1", len(loops), 1, "accept loop" + tag)
        for i, l in enumerate(loops[:1]):
            exits = [x for x in ir.walk(l["body"], into_closures=False) if x["k"] in ("ret", "break")]
            R.judge(not exits, prefix + ".N1", key(run, "accept loop has no exit" + tag, i), l["sp"],
                    "loop without break/return", "accept loop can exit at %s" % [e["sp"] for e in exits])

    # ---------------- N2 decode errors are values
    des = prog.call_sites(lambda p, i: p.startswith("bincode::") and "deserialize" in p)
    des = [(f, n) for f, n in des if not f.derived]
    R.floor(prefix + ".N2", len(des), 4, "bincode::deserialize call sites" + tag)
    for (f, n), i in ordinal_keys(des, lambda x: x[0].path):
        pm = f.parents()
        par = pm.get(id(n))
        # climb through combinators that keep the Result
        while par is not None and ((par["k"] == "mcall" and par["name"] in ("map_err", "map", "or_else") and par["recv"] is not None)
                                   or par["k"] in ("await",)):
            n2 = par
            par = pm.get(id(par))
        bad = par is not None and par["k"] == "mcall" and par["name"] in ("unwrap", "expect", "unwrap_or_default")
        R.judge(not bad, prefix + ".N2", key(f, "deserialize result is not unwrapped" + tag, i), n["sp"],
                "consumed by `%s`" % (par["k"] if par else "?"),
                "bincode::deserialize(..).%s(..): bytes from the network or the shared store are decoded with a panic on "
                "failure" % (par.get("name", par["k"]) if par else "?"))

    # N2b: network/store bytes are decoded with the slice reader (bincode::deserialize), which bounds every length prefix by the
    # remaining input; the io::Read based entry points pre-allocate attacker-chosen lengths (process abort on allocation failure)
    bad_des = prog.call_sites(lambda p, i: p.startswith("bincode::") and ("deserialize_from" in p or "deserialize_in_place" in p))
    bad_des = [(f, n) for f, n in bad_des if not f.derived]
    for (f, n), i in ordinal_keys(bad_des, lambda x: x[0].path):
        R.fail(prefix + ".N2", key(f, "decoding uses the bounded slice reader" + tag, i), n["sp"],
               "%s decodes with %s: a length prefix of 2^62 makes bincode's IoReader allocate that much before reading (abort), "
               "use bincode::deserialize(&[u8])" % (f.path, n["fn"]))
    if not bad_des:
        R.ok(prefix + ".N2", "decoding uses the bounded slice reader" + tag, "", "no bincode::deserialize_from / deserialize_in_place call")

    # ---------------- N3 cross-component keys: store reads under network-supplied digests
    helper_chans = [c for c in W.channels.values() if c.kind == "mpsc" and "Digest" in (c.elem_ty or "")
                    and "PublicKey" in (c.elem_ty or "")]
    n3 = 0
    for c in helper_chans:
        for (cf, cn, acts) in W.consumers(c.id):
            # every store.read in the consumer function whose key derives from the received request
            ctx = env.ctx(cf)
            for n in cf.nodes():
                if n["k"] == "mcall" and "store::Store::read" in callee_paths(n):
                    kt = ctx.term(n["args"][0])
                    if "sel(" in kt or ".recv()" in kt:
                        n3 += 1
                        # the value must not reach an infallible decode
                        users = []
                        bound = None
                        for a in cf.ancestors(n):
                            if a["k"] in ("if", "match", "slet", "for"):
                                bound = a
                                break
                        scope = bound if bound is not None else cf.body
                        for x in ir.walk(scope):
                            if x["k"] == "mcall" and x["name"] in ("unwrap", "expect") and x["recv"]["k"] == "call" \
                                    and "deserialize" in x["recv"].get("fn", ""):
                                users.append(x)
                        R.judge(not users, prefix + ".N3", key(cf, "value read under a network-supplied key is decoded fallibly" + tag, n3 - 1),
                                n["sp"], "key term %s; no infallible decode of the value" % kt,
                                "store value read under the requester-chosen key %s is decoded with %s: batches and "
                                "blocks share one key space, so a peer can make this panic" % (kt, [u["sp"] for u in users]))
    R.floor(prefix + ".N3", n3, 2, "store reads keyed by a network-supplied digest (both helpers)" + tag)

    # ---------------- N4 unknown senders are skipped
    n4 = 0
    for c in helper_chans:
        for (cf, cn, acts) in W.consumers(c.id):
            ctx = env.ctx(cf)
            for n in cf.nodes():
                if n["k"] == "mcall" and n["name"] in ("address", "mempool_address") and n["args"]:
                    at = ctx.term(n["args"][0])
                    if "sel(" in at or ".recv()" in at:
                        n4 += 1
                        pm = cf.parents()
                        par = pm.get(id(n))
                        bad = par is not None and par["k"] == "mcall" and par["name"] in ("unwrap", "expect")
                        R.judge(not bad, prefix + ".N4", key(cf, "requester address lookup is total" + tag, n4 - 1), n["sp"],
                                "Option matched (%s)" % (par["k"] if par else "?"),
                                "address of a network-supplied origin is unwrapped")
    R.floor(prefix + ".N4", n4, 2, "origin lookups in the helpers" + tag)

    # ---------------- N5 every accepted connection is served: the accept loop hands each accepted socket to a runner under no
    # condition that earlier connections (which any stranger can open and break) could have made false
    rr, _runner = receiver_fns(prog)
    if R.judge(rr is not None, prefix + ".N5", "anchor Receiver::run" + tag, "", "", "anchor-missing", reason="anchor-missing"):
        from ..common import inner_cond
        lp = next((n for n in rr.nodes() if n["k"] in ("loop", "while")), None)
        sr = [n for n in rr.nodes() if n["k"] in ("call", "mcall") and _runner is not None and _runner.path in callee_paths(n)]
        R.floor(prefix + ".N5", len(sr), 1, "spawn_runner call in the accept loop" + tag)
        for n, i in ordinal_keys(sr, lambda x: 0):
            ok5 = lp is not None and any(x is n for x in ir.walk(lp["body"]))
            extra = []
            if ok5:
                ic = inner_cond(env.flow(rr), n, lp["body"])
                extra = [a for a in atoms_of(ic) if not a.startswith(("ok(", "some("))]
            R.judge(ok5 and not extra, prefix + ".N5", key(rr, "every accepted connection gets a runner" + tag, i), n["sp"], "",
                    "an accepted connection is served only under %s: state that earlier connections can drive (counters, tables) must not be able "
                    "to make the node stop serving its port" % extra if ok5 else "spawn_runner is not called from the accept loop")
        exits = [x for x in ir.walk(lp["body"], into_closures=False) if x["k"] in ("break", "ret")] if lp is not None else []
        R.judge(lp is not None and not exits, prefix + ".N5", key(rr, "accept loop has no exit" + tag), rr.sp, "",
                "the accept loop can end at %s: the port stops being served" % [x["sp"] for x in exits])


def check(P, R, tier):
    R.explanation = EXPLANATION
    R.assumptions = ["panics inside third-party crates (tokio, bincode, dalek, rocksdb, tokio-util frame cap) are not analysed",
                     "allocation failure is out of scope", "AUTH discharges are valid only while the cited rules of C04/C05/C07/C09/C10/C17/C19 pass (re-evaluated on every run)"]
    rules(P, R)
