"""A10: enumeration of panic-capable sites from pre-borrowck MIR (`mir_built`) joined with the
HIR tree, and the discharge rules (CONST, GUARD, SER, EXH, PEER, SELECT, AUTH, ENV, LIB)."""
import os
import re
import tomllib

from . import ir
from .analysis import And, Atom, Not, Or, cmp_formula, implies, show, peel_ty, diverges, uncond_subnodes
from .common import Env, call_args, callee_paths, iter_chain
from .wiring import MPSC_SEND, MPSC_RECV, ONESHOT_SEND, SPAWN, Wiring

VERIF = os.path.dirname(os.path.dirname(os.path.abspath(__file__)))

UNWRAPS = {
    "core::option::Option::<T>::unwrap": "unwrap", "core::option::Option::<T>::expect": "expect",
    "core::result::Result::<T, E>::unwrap": "unwrap", "core::result::Result::<T, E>::expect": "expect",
    "core::result::Result::<T, E>::unwrap_err": "unwrap_err", "core::result::Result::<T, E>::expect_err": "expect_err",
}
INDEX_FNS = {"core::ops::index::Index::index": "index", "core::ops::index::IndexMut::index_mut": "index"}
RANGE_PANIC_METHODS = {
    "alloc::vec::Vec::<T, A>::drain": "drain", "alloc::vec::Vec::<T, A>::remove": "remove",
    "alloc::vec::Vec::<T, A>::swap_remove": "swap_remove", "alloc::vec::Vec::<T, A>::insert": "insert",
    "alloc::vec::Vec::<T, A>::split_off": "split_off",
    "alloc::collections::vec_deque::VecDeque::<T, A>::drain": "drain",
    "core::slice::<impl [T]>::copy_from_slice": "copy_from_slice", "core::slice::<impl [T]>::split_at": "split_at",
    "core::slice::<impl [T]>::split_at_mut": "split_at", "core::slice::<impl [T]>::swap": "swap",
    "core::slice::<impl [T]>::clone_from_slice": "copy_from_slice",
    "bytes::bytes::Bytes::slice": "bytes_slice", "bytes::bytes::Bytes::split_to": "bytes_slice",
    "bytes::bytes::Bytes::split_off": "bytes_slice", "bytes::bytes_mut::BytesMut::split_to": "bytes_slice",
    "base64::decode::decode_config_slice": "outbuf", "base64::decode::decode_engine_slice": "outbuf",
    "base64::encode::encode_config_slice": "outbuf", "base64::encode::encode_engine_slice": "outbuf",
    "base64::decode::decode_config_buf": None, "bytes::buf::buf_impl::Buf::advance": "bytes_slice",
    "bytes::buf::buf_impl::Buf::copy_to_slice": "bytes_slice", "bytes::buf::buf_impl::Buf::get_u64": "bytes_slice",
    "bytes::buf::buf_impl::Buf::get_u32": "bytes_slice", "bytes::buf::buf_impl::Buf::get_u8": "bytes_slice",
    "core::slice::<impl [T]>::chunks_exact": "chunks", "core::slice::<impl [T]>::rchunks": "chunks",
    "core::slice::<impl [T]>::rotate_left": "split_at", "core::slice::<impl [T]>::rotate_right": "split_at",
    "alloc::vec::Vec::<T, A>::splice": "drain", "alloc::string::String::insert_str": "insert",
    "alloc::string::String::truncate": "split_off", "alloc::string::String::split_off": "split_off",
    "core::str::<impl str>::split_at": "split_at", "alloc::collections::vec_deque::VecDeque::<T, A>::insert": "insert",
    "alloc::collections::vec_deque::VecDeque::<T, A>::swap": "swap",
    "core::iter::traits::iterator::Iterator::sum": "sum", "core::iter::traits::iterator::Iterator::product": "sum",
    "core::iter::traits::iterator::Iterator::step_by": "step_by",
    "core::slice::<impl [T]>::chunks": "chunks", "core::slice::<impl [T]>::windows": "chunks",
}
# infallible-looking From/Into conversions of third-party types that are documented to panic on some inputs
PARTIAL_CONVERSIONS = [
    ("[u8; 64", "ed25519::Signature", "ed25519 1.x: From<[u8; 64]> for Signature panics when the three high bits of byte 63 are set"),
]
ARITH_ASSERTS = ("Overflow(", "OverflowNeg", "DivisionByZero", "RemainderByZero", "BoundsCheck")


class Site:
    def __init__(self, cfg, mdef, root, blk):
        self.cfg = cfg
        self.mdef = mdef
        self.root = root
        self.blk = blk
        self.sp = blk["sp"]
        self.macros = blk.get("m") or []
        self.kind = None
        self.what = None
        self.fn = None       # prog.Fn
        self.node = None     # joined HIR node
        self.sig = None

    def key(self):
        return "%s|%s" % (self.root, self.sig)

    def __repr__(self):
        return "Site(%s %s %s)" % (self.root, self.kind, self.sp)


def classify_block(b):
    """Return (kind, what) if the MIR terminator is panic-capable."""
    if b.get("cleanup"):
        return None
    if b["t"] == "assert":
        ak = b["ak"]
        if ak.startswith(ARITH_ASSERTS):
            return ("assert", ak)
        return None
    if b["t"] == "call":
        fn = b.get("fn")
        if not fn:
            return None
        if fn in UNWRAPS:
            return (UNWRAPS[fn], fn)
        if fn.startswith(("core::panicking::", "std::panicking::", "std::rt::begin_panic", "core::option::expect_failed",
                          "core::option::unwrap_failed", "core::result::unwrap_failed")):
            return ("panic", fn)
        if fn in INDEX_FNS:
            return ("index", b.get("inst") or fn)
        if fn in RANGE_PANIC_METHODS and RANGE_PANIC_METHODS[fn] is not None:
            return (RANGE_PANIC_METHODS[fn], fn)
        inst = b.get("inst") or ""
        if fn in ("core::convert::From::from", "core::convert::Into::into"):
            ta = b.get("targs") or ""
            for (src, dst, why) in PARTIAL_CONVERSIONS:
                if src in ta and dst in ta:
                    return ("partialconv", "%s (%s)" % (inst or fn, why))
        if fn in ("core::ops::arith::Add::add", "core::ops::arith::Sub::sub", "core::ops::arith::AddAssign::add_assign",
                  "core::ops::arith::SubAssign::sub_assign") and ("Instant" in inst or "SystemTime" in inst or "Duration" in inst):
            return ("timeadd", inst)
    return None


class PanicAnalysis:
    def __init__(self, prog, cfg, roots, env=None, wiring=None):
        self.prog = prog
        self.cfg = cfg
        self.env = env or Env(prog)
        self.W = wiring or Wiring(prog, self.env)
        self.universe = self._universe(roots)
        self.sites = []
        self.unjoined = []
        self._enumerate()
        self._supp = None
        self.auth_status = {}   # rule id -> bool (filled by caller)
        self._immortal = None

    # ------------------------------------------------------------------ universe
    def _universe(self, roots):
        prog = self.prog
        trait_impls = {}
        type_impls = {}
        for p, f in prog.fns.items():
            if f.trait:
                trait_impls.setdefault(f.trait + "::" + f.name, []).append(p)
                if f.self_ty:
                    type_impls.setdefault(f.self_ty, []).append(p)
        adts = set(prog.structs) | set(prog.enums)
        path_re = re.compile(r"[A-Za-z_][A-Za-z0-9_]*(?:::[A-Za-z_][A-Za-z0-9_]*)+")
        mir_by_root = {}
        for d, m in prog.mir.items():
            mir_by_root.setdefault(m["root"], []).append(m)
        seen = set()
        stack = [r for r in roots if r in prog.fns]
        cg = self.env.callgraph()
        while stack:
            p = stack.pop()
            if p in seen:
                continue
            seen.add(p)
            stack.extend(cg.get(p, ()))
            f = prog.fns.get(p)
            if f is not None:
                for x in f.nodes():
                    if x["k"] in ("call", "mcall") and "fn" in x and "inst" not in x and x["fn"] in trait_impls:
                        stack.extend(trait_impls[x["fn"]])
            for m in mir_by_root.get(p, ()):
                for b in m["blocks"]:
                    if b["t"] == "call":
                        for q in (b.get("fn"), b.get("inst")):
                            if q in prog.fns:
                                stack.append(q)
                        if b.get("fn") in trait_impls and "inst" not in b:
                            stack.extend(trait_impls[b["fn"]])
                        ta = b.get("targs")
                        if ta:
                            for t in path_re.findall(ta):
                                if t in adts:
                                    stack.extend(type_impls.get(t, ()))
        # Drop impls of workspace types always run
        for p, f in prog.fns.items():
            if f.trait == "core::ops::drop::Drop":
                seen.add(p)
        return seen

    # ------------------------------------------------------------------ enumeration + join
    def _enumerate(self):
        prog = self.prog
        for d in sorted(prog.mir):
            m = prog.mir[d]
            root = m["root"]
            if root not in self.universe:
                continue
            f = prog.fns.get(root)
            if f is None:
                continue
            idx = None
            for b in m["blocks"]:
                c = classify_block(b)
                if c is None:
                    continue
                s = Site(self.cfg, d, root, b)
                s.kind, s.what = c
                s.fn = f
                if idx is None:
                    idx = self._index_fn(f)
                s.node = self._join(s, idx)
                s.sig = self._signature(s)
                self.sites.append(s)
        # stable ordinals for equal signatures
        seen = {}
        for s in self.sites:
            k = (s.root, s.sig)
            i = seen.get(k, 0)
            seen[k] = i + 1
            if i:
                s.sig = "%s#%d" % (s.sig, i)

    def _index_fn(self, f):
        idx = {}
        for n in f.nodes():
            idx.setdefault(n.get("sp"), []).append(n)
            if n["k"] == "index" and "bsp" in n:
                idx.setdefault("bsp:" + n["bsp"], []).append(n)
        return idx

    def _join(self, s, idx):
        cands = idx.get(s.sp, [])
        k = s.kind
        if k in ("unwrap", "expect", "unwrap_err", "expect_err"):
            c = [n for n in cands if n["k"] == "mcall" and n.get("fn") == s.what]
            if not c:
                c = [n for n in cands if n["k"] == "call" and n.get("fn") == s.what]
            return c[0] if c else None
        if k == "panic":
            c = [n for n in cands if n["k"] == "panic"]
            if c:
                return c[0]
            c = [n for n in cands if n["k"] == "select"]
            return c[0] if c else None
        if k == "index":
            c = [n for n in cands if n["k"] == "index"]
            if not c:
                c = [n for n in idx.get("bsp:" + s.sp, [])]
            return c[0] if c else None
        if k == "assert":
            ak = s.what
            if ak == "BoundsCheck":
                c = [n for n in cands if n["k"] == "index"]
                if not c:
                    c = [n for n in idx.get("bsp:" + s.sp, [])]
                return c[0] if c else None
            opmap = {"Add": "+", "Sub": "-", "Mul": "*", "Shl": "<<", "Shr": ">>", "Div": "/", "Rem": "%"}
            op = None
            mm = re.match(r"Overflow\((\w+)\)", ak)
            if mm:
                op = opmap.get(mm.group(1))
            elif ak == "DivisionByZero":
                op = "/"
            elif ak == "RemainderByZero":
                op = "%"
            c = [n for n in cands if n["k"] == "bin" and n["op"] == op]
            if not c:
                c = [n for n in cands if n["k"] == "assignop" and n["op"].rstrip("=") == op]
            return c[0] if c else None
        # method-call kinds
        c = [n for n in cands if n["k"] in ("mcall", "call") and (n.get("fn") == s.what or s.what in callee_paths(n))]
        if not c and k == "timeadd":
            c = [n for n in cands if n["k"] in ("bin", "assignop")]
        return c[0] if c else None

    def _signature(self, s):
        n = s.node
        ctx = self.env.ctx(s.fn)
        if n is None:
            return "%s:%s@unjoined" % (s.kind, s.what)
        if s.kind in ("expect", "expect_err"):
            msg = ""
            if n["k"] == "mcall" and n["args"] and n["args"][0]["k"] == "lit":
                msg = (n["args"][0].get("v") or {}).get("str", "")
            return "expect(%r)" % msg
        if s.kind in ("unwrap", "unwrap_err"):
            return "unwrap:%s" % ctx.term(n["recv"] if n["k"] == "mcall" else n["args"][0])
        if s.kind == "panic":
            if n["k"] == "select":
                return "select-internal" if "unreachable" in s.macros else "select-all-disabled"
            msg = ""
            for a in n.get("args", []):
                if a["k"] == "lit" and "str" in (a.get("v") or {}):
                    msg = a["v"]["str"]
            return "%s!(%s)" % (n.get("mac", "panic"), msg[:60])
        if s.kind == "index":
            return "index:%s[%s]" % (ctx.term(n["e"]), ctx.term(n["i"]))
        if s.kind == "assert":
            if n["k"] == "assignop":
                return "%s:%s %s= %s" % (s.what, ctx.term(n["l"]), n["op"].rstrip("="), ctx.term(n["r"]))
            return "%s:%s" % (s.what, ctx.term(n) if n["k"] == "bin" else ir.pp(n, maxlen=80))
        return "%s:%s" % (s.kind, ctx.term(n))

    # ------------------------------------------------------------------ suppressions
    def suppressions(self):
        if self._supp is None:
            p = os.path.join(VERIF, "rules", "suppressions.toml")
            self._supp = {}
            if os.path.exists(p):
                with open(p, "rb") as fh:
                    data = tomllib.load(fh)
                for e in data.get("suppress", []):
                    self._supp[(e["function"], e["site"])] = e
        return self._supp

    # ------------------------------------------------------------------ immortality (greatest fixpoint)
    def actor_sites(self, a):
        roots = set(a.reach) | {a.fn.path}
        out = []
        clo_sp = a.closure.get("sp")
        for s in self.sites:
            if s.root in a.reach:
                # only code run by this task (not closures spawned from it)
                if s.node is None or any(x is s.node for x in self.W.own_nodes(s.fn)):
                    out.append(s)
            elif s.root == a.fn.path and s.node is not None and any(x is s.node for x in ir.walk(a.closure)):
                out.append(s)
        return out

    def loops_forever(self, a):
        """The actor's task never returns normally while one of its input channels has a live sender:
        its top-level body ends in `loop {}` without break/return, or `while let Some(..) = rx.recv().await`."""
        prog = self.prog
        body = a.closure["body"]

        def tail_of(n):
            while True:
                if n["k"] == "block":
                    ss = n.get("stmts", [])
                    if "expr" in n:
                        n = n["expr"]
                        continue
                    if ss:
                        n = ss[-1]
                        continue
                    return n
                if n["k"] in ("await", "try"):
                    n = n["e"]
                    continue
                return n

        from .common import exit_on_channel_close

        def fn_loops(n, depth=0, owner=None):
            owner = owner or a.fn
            t = tail_of(n)
            if t["k"] == "loop":
                exits = [x for x in ir.walk(t["body"], into_closures=False)
                         if (x["k"] == "break" and self._break_targets(t, x)) or x["k"] == "ret"]
                exits = [x for x in exits if not exit_on_channel_close(self.env, owner, t, x)]
                return (not exits), ("loop without exit (other than on a closed channel)" if not exits else "loop has exit at %s" % exits[0]["sp"])
            if t["k"] == "while":
                c = t["c"]
                if c["k"] == "let" and any(p in (MPSC_RECV,) for x in ir.walk(c["init"]) for p in callee_paths(x)):
                    rets = [x for x in ir.walk(t["body"], into_closures=False) if x["k"] in ("ret",) or
                            (x["k"] == "break" and self._break_targets(t, x))]
                    rets = [x for x in rets if not exit_on_channel_close(self.env, owner, t, x)]
                    return (not rets), "while-let over channel recv" + ("" if not rets else " with exit at %s" % rets[0]["sp"])
                return False, "while loop with data-dependent exit"
            if t["k"] in ("mcall", "call") and depth < 4:
                for p in callee_paths(t):
                    g = prog.fns.get(p)
                    if g is not None:
                        # early returns anywhere in the callee before its final loop also end the task
                        ok, why = fn_loops(g.body, depth + 1, g)
                        if ok:
                            tl = tail_of(g.body)
                            pre = [x for x in ir.walk(g.body, into_closures=False)
                                   if x["k"] == "ret" and not any(y is x for y in ir.walk(tl))]
                            if pre:
                                return False, "%s returns early at %s" % (g.path, pre[0]["sp"])
                        return ok, "%s: %s" % (g.name, why)
            return False, "body does not end in a loop (%s)" % t["k"]

        return fn_loops(body)

    def _break_targets(self, loop, brk):
        """Does `brk` leave `loop` (rather than an inner loop)?"""
        label = brk.get("label")
        if label:
            return loop.get("label") == label
        # unlabeled: innermost enclosing loop
        def inner(n, inside):
            if n is brk:
                return inside
            if not ir.is_node(n):
                return None
            for c in ir.children(n):
                nested = inside or (n is not loop and n["k"] in ("loop", "while", "for"))
                if n["k"] == "closure":
                    continue
                r = inner(c, nested)
                if r is not None:
                    return r
            return None
        r = inner(loop, False)
        return r is False

    def immortal(self):
        """Greatest fixpoint: actor -> (bool, reason). PEER/SELECT sites depend on other actors."""
        if self._immortal is not None:
            return self._immortal
        actors = [a for a in self.W.actors if a.fn.path in self.universe]
        status = {}
        for a in actors:
            ok, why = self.loops_forever(a)
            status[a.id] = [ok, why if not ok else "runs forever (%s)" % why]
        changed = True
        while changed:
            changed = False
            for a in actors:
                if not status[a.id][0]:
                    continue
                for s in self.actor_sites(a):
                    d = self.discharge(s, status)
                    if d is None:
                        status[a.id] = [False, "undischarged panic site %s at %s" % (s.sig, s.sp)]
                        changed = True
                        break
        self._immortal = status
        return status

    # ------------------------------------------------------------------ discharge
    def discharge(self, s, actor_status=None):
        """Return (class, reason) or None. `actor_status` (id -> [alive, why]) is used by PEER/SELECT rules;
        when None the final fixpoint is used."""
        n = s.node
        f = s.fn
        if f.derived or any(x in ("Serialize", "Deserialize", "Error", "Subcommand", "Parser") for x in f.macros):
            return ("LIB", "derive-generated code (serde/thiserror/clap), third-party expansion")
        if "select" in s.macros and (s.kind == "assert" or "unreachable" in s.macros):
            return ("LIB", "tokio::select! internals (branch mask arithmetic / unreachable! on bind mismatch)")
        if n is None:
            if "select" in s.macros and s.kind == "assert":
                return ("LIB", "tokio::select! internals")
            return None
        for rule in (self._supp_rule, self._select_rule, self._peer_rule, self._exh_rule, self._ser_rule,
                     self._const_rule, self._guard_rule, self._bound_rule, self._env_rule, self._prologue_rule,
                     self._round_rule, self._leader_rule, self._auth_rule):
            if rule in (self._select_rule, self._peer_rule):
                r = rule(s, actor_status)
            else:
                r = rule(s)
            if r is not None:
                return r
        return None

    # ---- keyed suppressions (one symbol wide)
    @staticmethod
    def _owner(path):
        """`a::b::Type::method` -> `a::b::Type` ; `<T as Trait>::m` -> `<T as Trait>`."""
        return path.rsplit("::", 1)[0] if "::" in path else path

    def _table_lookup(self, table, s):
        """Exact (function, site) match, else (owner type/module, site) when that site signature is unique among the
        owner's sites: a table row survives renaming the method it sits in, but never widens to a second site."""
        e = table.get((s.root, s.sig))
        if e is not None:
            return e
        own = self._owner(s.root)
        cands = [v for (fn_, sig_), v in table.items() if sig_ == s.sig and self._owner(fn_) == own]
        if len(cands) != 1:
            return None
        same = [x for x in self.sites if x.sig == s.sig and self._owner(x.root) == own]
        if len(same) != 1:
            return None
        # the row's own function must not exist any more (otherwise the row belongs to that function)
        fn_ = next(k[0] for k, v in table.items() if v is cands[0])
        if fn_ in self.prog.fns:
            return None
        return cands[0]

    def _supp_rule(self, s):
        e = self._table_lookup(self.suppressions(), s)
        if e:
            e["_used"] = True
            return ("ENV" if e.get("class", "ENV") == "ENV" else e["class"], "suppressed: " + e["reason"])
        return None

    def _alive(self, aid, actor_status):
        st = actor_status if actor_status is not None else self.immortal()
        v = st.get(aid)
        return bool(v and v[0])

    # ---- tokio::select! "all branches are disabled"
    def _select_rule(self, s, actor_status):
        n = s.node
        if n["k"] != "select":
            return None
        ctx = self.env.ctx(s.fn)
        if not n.get("disabled_panics"):
            return ("SELECT", "select! has an else branch")
        for b in n["branches"]:
            if b.get("pat") is None:
                continue
            from .analysis import T as TRUE
            if ctx.pat_test(b["pat"], "x") == TRUE:
                return ("SELECT", "branch %d has an irrefutable pattern: it can never be disabled" % b["i"])
        # all branches refutable: need a channel branch with a permanently live sender
        for b in n["branches"]:
            fut = b.get("fut")
            if fut is None:
                continue
            for x in ir.walk(fut):
                if x["k"] == "mcall" and MPSC_RECV in callee_paths(x):
                    chans = {cid for (cid, end) in self.W.ep(s.fn, x["recv"]) if end == "rx"}
                    for cid in chans:
                        for (sf, sn, _p) in self.W.senders_of(cid):
                            for a in self.W.actors_executing(sf, sn):
                                if self._alive(a.id, actor_status):
                                    return ("SELECT", "branch %d receives from %s whose sender is held by immortal actor %s"
                                            % (b["i"], cid, a.id))
        return None

    # ---- PEER: channel send .expect / recv .expect / panic after failed send
    def _send_under(self, s):
        """Find the mpsc send / oneshot recv whose failure triggers this site."""
        n = s.node
        f = s.fn
        if n["k"] == "mcall" and s.kind in ("expect", "unwrap"):
            r = n["recv"]
            while r["k"] in ("await", "try"):
                r = r["e"]
            if r["k"] == "mcall" and MPSC_SEND in callee_paths(r):
                return ("send", r)
            if n["recv"]["k"] == "await":
                inner = n["recv"]["e"]
                if "oneshot::Receiver" in (inner.get("ty") or ""):
                    return ("oneshot", inner)
        if n["k"] == "panic":
            for a in f.ancestors(n):
                if a["k"] == "if" and a["c"]["k"] == "let":
                    init = a["c"]["init"]
                    r = init
                    while r["k"] in ("await", "try"):
                        r = r["e"]
                    if r["k"] == "mcall" and MPSC_SEND in callee_paths(r):
                        pat = a["c"]["pat"]
                        if pat["k"] == "ptstruct" and pat["path"].endswith("::Err"):
                            return ("send", r)
        return None

    def peer_dependencies(self, s):
        """Actor ids whose liveness a channel-liveness (PEER / select-all-disabled) site depends on, or None if the site is
        not of that kind."""
        n = s.node
        W = self.W
        out = set()
        if n is not None and n["k"] == "select":
            for b in n["branches"]:
                fut = b.get("fut")
                if fut is None:
                    continue
                for x in ir.walk(fut):
                    if x["k"] == "mcall" and MPSC_RECV in callee_paths(x):
                        for (cid, end) in W.ep(s.fn, x["recv"]):
                            if end == "rx":
                                for (sf, sn, _p) in W.senders_of(cid):
                                    for a in W.actors_executing(sf, sn):
                                        out.add(a.id)
            return out
        su = self._send_under(s) if n is not None else None
        if su is None:
            return None
        kind, node = su
        if kind == "send":
            for (cid, end) in W.ep(s.fn, node["recv"]):
                if end == "tx":
                    for (cf, cn, acts) in W.consumers(cid):
                        for a in acts:
                            out.add(a.id)
        else:
            for (oc, end) in W.ep(s.fn, node):
                if end == "rx":
                    for loc, eps in W.holds.items():
                        if loc[0] == "chan" and (oc, "tx") in eps:
                            for (cf, cn, acts) in W.consumers(loc[1]):
                                for a in acts:
                                    out.add(a.id)
        return out

    def _peer_rule(self, s, actor_status):
        su = self._send_under(s)
        if su is None:
            return None
        kind, node = su
        W = self.W
        if kind == "send":
            chans = {cid for (cid, end) in W.ep(s.fn, node["recv"]) if end == "tx"}
            if not chans:
                return None
            for cid in chans:
                cons = W.consumers(cid)
                if not cons:
                    return None
                for (cf, cn, acts) in cons:
                    acts = [a for a in acts if a.fn.path in self.universe]
                    if not acts:
                        return None
                    for a in acts:
                        if not self._alive(a.id, actor_status):
                            return None
            return ("PEER", "send on %s: every consumer task is immortal" % sorted(chans))
        # oneshot reply: the sender half travels in an mpsc channel to an immortal actor that always replies
        chans = {cid for (cid, end) in W.ep(s.fn, node) if end == "rx"}
        if not chans:
            return None
        for oc in chans:
            carriers = [loc[1] for loc, eps in W.holds.items() if loc[0] == "chan" and (oc, "tx") in eps]
            if not carriers:
                return None
            for cid in carriers:
                for (cf, cn, acts) in W.consumers(cid):
                    for a in acts:
                        if a.fn.path in self.universe and not self._alive(a.id, actor_status):
                            return None
            # reply linearity: every send site of the oneshot's sender half is reached on all paths of the
            # consumer's handling arm (never dropped without reply)
            ok, why = self.oneshot_always_replied(oc)
            if not ok:
                return None
        if s.root.startswith("store::Store::"):
            # "parks" is only as good as the store's obligation discipline: a parked sender is answered by the write of its key and is
            # never dropped or replaced in between (C16.T3 every removed waiter answered, T4 parking, T6 obligations only appended to)
            req = ["C16.T3", "C16.T4", "C16.T6"]
            failed = [r for r in req if not self.auth_status.get(r, False)]
            if failed:
                s.detail = "the reply to a parked notify_read is guaranteed by %s, but %s do not pass on this tree" % (req, failed)
                return None
        return ("PEER", "oneshot reply on %s: carried to an immortal actor that replies (or parks) on every path" % sorted(chans))

    def oneshot_always_replied(self, oc):
        """A8 for reply handles: in every function where the sender half of `oc` is bound by a pattern,
        all paths through the binding scope use it (send / move into a container / forward)."""
        W = self.W
        ok_all = True
        why = []
        for loc, eps in W.holds.items():
            if loc[0] != "var" or (oc, "tx") not in eps:
                continue
            f = self.prog.fns.get(loc[1])
            if f is None:
                continue
            vid = loc[2]
            # find the binding pattern and its scope
            for n in f.nodes():
                scope = None
                if n["k"] == "match":
                    for a in n["arms"]:
                        if any(p["k"] == "pbind" and p["id"] == vid for p in ir.walk(a["pat"])):
                            scope = a["body"]
                elif n["k"] == "while" and n["c"]["k"] == "let":
                    if any(p["k"] == "pbind" and p["id"] == vid for p in ir.walk(n["c"]["pat"])):
                        scope = n["body"]
                elif n["k"] == "select":
                    for b in n["branches"]:
                        if b.get("pat") is not None and any(p["k"] == "pbind" and p["id"] == vid for p in ir.walk(b["pat"])):
                            scope = b["body"]
                if scope is not None:
                    if not must_use(scope, vid):
                        ok_all = False
                        why.append("%s: reply handle may be dropped in %s" % (scope["sp"], f.path))
        return ok_all, "; ".join(why)

    # ---- EXH: wildcard arm panics on a wire enum
    def _exh_rule(self, s):
        n = s.node
        if n["k"] != "panic":
            return None
        f = s.fn
        arm_match = None
        child = n
        for a in f.ancestors(n):
            if a["k"] == "match":
                for arm in a["arms"]:
                    if any(x is n for x in ir.walk(arm["body"])) and arm["pat"]["k"] in ("pwild", "pbind"):
                        arm_match = a
                break
            if a["k"] in ("closure",):
                break
        if arm_match is None:
            return None
        ety = peel_ty(arm_match["scrut"].get("ty"))
        enum = self.prog.enums.get(ety)
        if enum is None:
            return None
        handled = set()
        for arm in arm_match["arms"]:
            p = arm["pat"]
            if p["k"] in ("ptstruct", "pstruct", "pexpr") and "path" in p and "guard" not in arm:
                handled.add(p["path"].rsplit("::", 1)[-1])
        allv = {v["name"] for v in enum["variants"]}
        # where does the scrutinee come from? a channel recv
        ctx = self.env.ctx(f)
        on = ctx.origin_node(arm_match["scrut"])
        chans = set()
        d = ctx.defs.get(on["id"]) if on["k"] == "var" else None
        if d and d[0][0] == "sel":
            for x in ir.walk(d[0][1]):
                if x["k"] == "mcall" and MPSC_RECV in callee_paths(x):
                    chans |= {cid for (cid, end) in self.W.ep(f, x["recv"]) if end == "rx"}
        elif d and d[0][0] == "expr":
            for x in ir.walk(d[0][1]):
                if x["k"] == "mcall" and MPSC_RECV in callee_paths(x):
                    chans |= {cid for (cid, end) in self.W.ep(f, x["recv"]) if end == "rx"}
        if not chans:
            return None
        possible = set()
        for cid in chans:
            for (sf, sn, payload) in self.W.senders_of(cid):
                possible |= self.payload_variants(sf, payload, enum)
        missing = possible - handled
        if missing:
            s.detail = "variants %s can reach the wildcard panic arm (senders on %s)" % (sorted(missing), sorted(chans))
            return None
        return ("EXH", "variants reaching %s are %s, all explicitly handled (%s never sent)" % (
            sorted(chans), sorted(possible), sorted(allv - possible)))

    def payload_variants(self, f, payload, enum):
        allv = {v["name"] for v in enum["variants"]}
        if payload is None:
            return allv
        ctx = self.env.ctx(f)
        n = payload
        while n["k"] in ("ref",) or (n["k"] == "mcall" and n["name"] == "clone" and not n["args"]):
            n = n["e"] if n["k"] == "ref" else n["recv"]
        if n["k"] != "var" or not self._bound_by_match_arm(f, ctx, n):
            n = ctx.origin_node(payload)
        if n["k"] == "ctor" and n["path"].rsplit("::", 1)[0] == enum["path"]:
            return {n["path"].rsplit("::", 1)[-1]}
        if n["k"] == "var":
            d = ctx.defs.get(n["id"])
            if d:
                pat = d[2]
                # binding inside a match arm: `x @ Variant(..)` or bare binding after earlier arms
                for m in f.nodes():
                    if m["k"] != "match":
                        continue
                    covered = set()
                    for arm in m["arms"]:
                        ap = arm["pat"]
                        if ap is pat or any(p is pat for p in ir.walk(ap)):
                            if ap["k"] == "pbind" and "sub" in ap and ap["sub"]["k"] in ("ptstruct", "pstruct", "pexpr"):
                                return {ap["sub"]["path"].rsplit("::", 1)[-1]}
                            if ap["k"] == "pbind":
                                return allv - covered
                            return allv
                        if ap["k"] in ("ptstruct", "pstruct", "pexpr") and "path" in ap and "guard" not in arm:
                            if all(sp["k"] in ("pwild", "pbind") and "sub" not in sp for sp in ap.get("pats", [])):
                                covered.add(ap["path"].rsplit("::", 1)[-1])
        return allv

    def _bound_by_match_arm(self, f, ctx, var):
        d = ctx.defs.get(var["id"])
        if not d:
            return False
        pat = d[2]
        for m in f.nodes():
            if m["k"] == "match":
                for arm in m["arms"]:
                    if arm["pat"] is pat or any(p is pat for p in ir.walk(arm["pat"])):
                        return True
        return False

    # ---- SER: bincode::serialize(..).expect
    def _ser_rule(self, s):
        n = s.node
        if n["k"] != "mcall" or s.kind not in ("expect", "unwrap"):
            return None
        r = n["recv"]
        if not (r["k"] == "call" and r.get("fn", "").startswith("bincode::") and "serialize" in r["fn"]):
            return None
        arg = r["args"][0]
        ty = peel_ty(arg.get("ty"))
        bad = self.serialize_fallible(ty)
        if bad:
            return None
        return ("SER", "bincode::serialize of %s: all reachable workspace types derive Serialize or use an infallible "
                       "custom impl" % ty)

    def serialize_fallible(self, ty, seen=None):
        """Return a list of workspace types reachable from `ty` whose Serialize impl is not derive-generated and
        not in the audited infallible list."""
        seen = seen if seen is not None else set()
        out = []
        path_re = re.compile(r"[A-Za-z_][A-Za-z0-9_]*(?:::[A-Za-z_][A-Za-z0-9_]*)+")
        for t in path_re.findall(ty):
            if t in seen:
                continue
            if t not in self.prog.structs and t not in self.prog.enums:
                continue
            seen.add(t)
            impls = [i for i in self.prog.impls if i["self"] == t and i.get("trait") in (
                "serde_core::ser::Serialize", "serde::ser::Serialize")]
            if not impls:
                out.append(t + " (no Serialize impl)")
                continue
            if not all(i["derived"] for i in impls):
                if not self.custom_serialize_infallible(t):
                    out.append(t + " (custom Serialize)")
            fields = []
            if t in self.prog.structs:
                fields = [f["ty"] for f in self.prog.structs[t]["fields"]]
            else:
                fields = [f["ty"] for v in self.prog.enums[t]["variants"] for f in v["fields"]]
            for ft in fields:
                out.extend(self.serialize_fallible(ft, seen))
        return out

    def custom_serialize_infallible(self, t):
        """A hand-written Serialize impl is accepted when its body is a single serializer.serialize_str/bytes call
        on a value computed without fallible steps (no `?`, no Err construction)."""
        for p, f in self.prog.fns.items():
            if f.self_ty == t and f.trait in ("serde_core::ser::Serialize", "serde::ser::Serialize") and f.name == "serialize":
                body = f.body
                tail = body.get("expr") if body["k"] == "block" else body
                if tail is None or tail["k"] != "mcall" or tail["name"] not in ("serialize_str", "serialize_bytes"):
                    return False
                for x in ir.walk(body):
                    if x["k"] in ("try", "ret") or (x["k"] == "ctor" and x["path"].endswith("::Err")):
                        return False
                return True
        return False

    # ---- CONST: statically known lengths / constant operands
    def static_len(self, f, n, depth=0):
        """Statically known length (in elements) of the value of expression n, or None."""
        if depth > 12:
            return None
        ctx = self.env.ctx(f)
        n = ctx.origin_node(n)
        ty = peel_ty(n.get("ty") or "")
        m = re.match(r"^\[(.+); (\d+)\]$", ty)
        if m:
            return int(m.group(2))
        if n["k"] in ("mcall", "call"):
            paths = callee_paths(n)
            name = n.get("name") or n["fn"].rsplit("::", 1)[-1]
            if name in ("as_slice", "as_ref", "as_bytes", "to_vec", "as_mut_slice") and n["k"] == "mcall":
                return self.static_len(f, n["recv"], depth + 1)
            if any(p.startswith("digest::digest::Digest::") and p.rsplit("::", 1)[-1] in ("finalize", "digest") for p in paths):
                hty = (n["recv"].get("ty") if n["k"] == "mcall" else "") or ""
                allty = hty + " " + " ".join(paths) + " " + (n.get("targs") or "")
                if "Sha512" in allty:
                    return 64
                if "Sha256" in allty:
                    return 32
                return None
            if name == "concat" and n["k"] == "mcall":
                rt = peel_ty(n["recv"].get("ty") or "")
                mm = re.match(r"^\[\[(.+); (\d+)\]; (\d+)\]$", rt)
                if mm:
                    return int(mm.group(2)) * int(mm.group(3))
            if name == "to_bytes" or name == "to_le_bytes" or name == "to_be_bytes":
                return None
            if any(p == "base64::encode::encode" or p.startswith("base64::encode") for p in paths) and n["k"] == "call":
                inner = self.static_len(f, n["args"][0], depth + 1)
                if inner is not None:
                    return 4 * ((inner + 2) // 3)
            # local function whose body is a single expression of known length
            for p in paths:
                g = self.prog.fns.get(p)
                if g is not None and g.body["k"] == "block" and not g.body.get("stmts") and "expr" in g.body:
                    return self.static_len(g, g.body["expr"], depth + 1)
        if n["k"] == "index":
            rng = self.const_range(f, n["i"])
            if rng is not None:
                lo, hi = rng
                base = self.static_len(f, n["e"], depth + 1)
                if lo is None and hi is None:
                    return base
                if hi is None:
                    return None if base is None else base - (lo or 0)
                return hi - (lo or 0)
        return None

    def const_range(self, f, i):
        """(lo, hi) of a range expression with literal bounds; (None, None) for `..`; None if not a const range."""
        if i["k"] == "struct" and i["path"].startswith("core::ops::range::"):
            kind = i["path"].rsplit("::", 1)[-1]
            vals = {}
            for fl in i["fields"]:
                e = fl["e"]
                if e["k"] == "lit" and "int" in (e.get("v") or {}):
                    vals[fl["name"]] = e["v"]["int"]
                else:
                    return None
            if kind == "Range":
                return (vals.get("start"), vals.get("end"))
            if kind == "RangeTo":
                return (None, vals.get("end"))
            if kind == "RangeFrom":
                return (vals.get("start"), None)
            if kind == "RangeInclusive":
                return None
        if i["k"] in ("ctor", "const", "path") and "RangeFull" in (i.get("path", "") + (i.get("ty") or "")):
            return (None, None)
        if (i.get("ty") or "").endswith("RangeFull"):
            return (None, None)
        return None

    def _const_rule(self, s):
        n = s.node
        f = s.fn
        if s.kind == "index" or (s.kind == "assert" and s.what == "BoundsCheck"):
            rng = self.const_range(f, n["i"])
            if rng == (None, None):
                return ("CONST", "full range `[..]` never fails")
            base_len = self.static_len(f, n["e"])
            if rng is not None and base_len is not None:
                lo, hi = rng
                hi2 = base_len if hi is None else hi
                if (lo or 0) <= hi2 <= base_len:
                    return ("CONST", "range [%s..%s] within statically known length %d" % (lo or 0, hi2, base_len))
            if n["i"]["k"] == "lit" and base_len is not None and n["i"]["v"].get("int", 1 << 62) < base_len:
                return ("CONST", "constant index %d < static length %d" % (n["i"]["v"]["int"], base_len))
            return None
        if s.kind in ("unwrap", "expect") and n["k"] == "mcall":
            r = n["recv"]
            # slice.try_into::<[u8; N]>() with static width N
            if r["k"] == "mcall" and r["name"] == "try_into":
                want = re.search(r"core::result::Result<\[(.+); (\d+)\]", r.get("ty") or "")
                have = self.static_len(f, r["recv"])
                if want and have is not None and int(want.group(2)) == have:
                    return ("CONST", "try_into::<[_; %d]> on a value of static length %d" % (have, have))
            # str.get(a..b) on an ASCII string of known length
            if r["k"] == "mcall" and r["name"] == "get" and r["args"]:
                rng = self.const_range(f, r["args"][0])
                have = self.static_len(f, r["recv"])
                if rng and have is not None and rng[1] is not None and (rng[0] or 0) <= rng[1] <= have:
                    return ("CONST", "get(%s..%s) on base64 text of static length %d (ASCII)" % (rng[0] or 0, rng[1], have))
            # "literal".parse().unwrap()
            if r["k"] == "mcall" and r["name"] == "parse" and r["recv"]["k"] == "lit":
                return ("CONST", "parse of the string literal %r" % r["recv"]["v"].get("str"))
        if s.kind == "assert" and s.what in ("DivisionByZero", "RemainderByZero") and n["k"] == "bin":
            d = n["r"]
            if d["k"] == "lit" and d["v"].get("int", 0) != 0:
                return ("CONST", "divisor is the non-zero literal %d" % d["v"]["int"])
        if s.kind == "drain" and n["k"] == "mcall" and n["args"]:
            if self.const_range(f, n["args"][0]) == (None, None):
                return ("CONST", "drain(..) over the full range")
        return None

    # ---- GUARD: the failing condition is excluded by the path condition
    def _guard_rule(self, s):
        n = s.node
        f = s.fn
        ctx = self.env.ctx(f)
        flow = self.env.flow(f)
        pc = flow.pathcond(n)
        pc = And(pc, self.closure_filter_facts(f, n))
        if s.kind in ("index",) or (s.kind == "assert" and s.what == "BoundsCheck"):
            base = ctx.term(n["e"])
            i = n["i"]
            need = None
            if i["k"] == "lit" and "int" in i["v"]:
                need = i["v"]["int"]          # len > need
            else:
                rng = self.const_range(f, i)
                if rng and rng[1] is not None:
                    need = rng[1] - 1         # len >= hi  <=> len > hi-1
            if need is not None:
                req = Or(*[cmp_formula(">", base + ".len()", str(k)) for k in range(need, need + 1)])
                ok, _ = implies(pc, req)
                if not ok:
                    # a stronger bound also works: len > m for m >= need
                    for a in _atoms_with(pc, base + ".len()"):
                        for m in range(need + 1, need + 64):
                            ok2, _ = implies(pc, cmp_formula(">", base + ".len()", str(m)))
                            if ok2:
                                ok = True
                                break
                        break
                if ok:
                    return ("GUARD", "index needs %s.len() > %d; path condition: %s" % (base, need, show(pc)))
            return None
        if s.kind == "assert" and s.what.startswith("Overflow(Sub)"):
            if n["k"] == "bin":
                a, b = ctx.term(n["l"]), ctx.term(n["r"])
                bl = n["r"]
            else:
                a, b = ctx.term(n["l"]), ctx.term(n["r"])
                bl = n["r"]
            if bl["k"] == "lit" and "int" in bl["v"]:
                req = cmp_formula(">", a, str(bl["v"]["int"] - 1))
            else:
                req = cmp_formula(">=", a, b)
            ok, _ = implies(pc, req)
            if ok:
                return ("GUARD", "subtraction guarded: %s => %s" % (show(pc), show(req)))
            return None
        if s.kind in ("unwrap", "expect") and n["k"] == "mcall":
            t = ctx.term(n["recv"])
            rty = peel_ty(n["recv"].get("ty") or "")
            atom = Atom(("some(%s)" if rty.startswith("core::option::Option") else "ok(%s)") % t)
            ok, _ = implies(pc, atom)
            if ok:
                return ("GUARD", "unwrap guarded: %s => %s" % (show(pc), show(atom)))
        return None

    def closure_filter_facts(self, f, n):
        """Facts from `.filter(|p| c)` earlier in an iterator chain and from Option/Result::map closures."""
        ctx = self.env.ctx(f)
        facts = []
        pm = f.parents()
        for a in f.ancestors(n):
            if a["k"] != "closure":
                continue
            par = pm.get(id(a))
            if par is None or par["k"] != "mcall":
                continue
            rty = peel_ty(par["recv"].get("ty") or "")
            if par["name"] in ("map", "and_then", "map_or", "map_or_else") and rty.startswith("core::result::Result"):
                facts.append(Atom("ok(%s)" % ctx.term(par["recv"])))
            elif par["name"] in ("map", "and_then") and rty.startswith("core::option::Option"):
                facts.append(Atom("some(%s)" % ctx.term(par["recv"])))
            else:
                base, chain = iter_chain(par["recv"])
                for (name, args, node) in chain:
                    if name == "filter" and args and args[0]["k"] == "closure":
                        body = args[0]["body"]
                        while body["k"] == "block" and not body.get("stmts") and "expr" in body:
                            body = body["expr"]
                        facts.append(ctx.formula(body))
        return And(*facts)

    # ---- BOUND: integer interval of locals/config fields excludes the overflow; COUNT: 64-bit event counters
    INT_BITS = {"u8": 8, "u16": 16, "u32": 32, "u64": 64, "usize": 64, "u128": 128}

    def _var_writes(self, f, vid):
        """(init nodes, assign nodes) of a local variable; None if it escapes by &mut."""
        inits, assigns = [], []
        for x in f.nodes():
            k = x["k"]
            if k in ("slet", "let") and x["pat"].get("k") == "pbind" and x["pat"].get("id") == vid:
                if "init" in x:
                    inits.append(x["init"])
                else:
                    return None
            elif k in ("assign", "assignop") and x["l"]["k"] == "var" and x["l"]["id"] == vid:
                assigns.append(x)
            elif k == "ref" and x.get("mut") and x["e"]["k"] == "var" and x["e"]["id"] == vid:
                return None
            elif k == "pbind" and x.get("id") == vid and not any(
                    y["k"] in ("slet", "let") and y["pat"] is x for y in f.nodes()):
                return None   # bound by a pattern other than a plain let
        return inits, assigns

    def upper_bound(self, f, n, busy=None, depth=0):
        """A static upper bound of the unsigned integer expression n, or None."""
        busy = busy if busy is not None else set()
        if depth > 12 or n is None:
            return None
        k = n["k"]
        if k == "lit" and "int" in (n.get("v") or {}):
            return n["v"]["int"]
        if k in ("ref", "cast") or (k == "un" and n.get("op") == "*"):
            return self.upper_bound(f, n["e"], busy, depth + 1)
        if k == "block" and not n.get("stmts") and "expr" in n:
            return self.upper_bound(f, n["expr"], busy, depth + 1)
        if k == "call" and n.get("fn") in ("core::cmp::min", "std::cmp::min") or (k == "mcall" and n["name"] == "min"):
            bs = [self.upper_bound(f, a, busy, depth + 1) for a in call_args(n)]
            bs = [b for b in bs if b is not None]
            return min(bs) if bs else None
        if k == "call" and n.get("fn") in ("core::cmp::max", "std::cmp::max"):
            bs = [self.upper_bound(f, a, busy, depth + 1) for a in n["args"]]
            return None if any(b is None for b in bs) else max(bs)
        if k == "bin" and n["op"] in ("+", "*"):
            a = self.upper_bound(f, n["l"], busy, depth + 1)
            b = self.upper_bound(f, n["r"], busy, depth + 1)
            if a is None or b is None:
                return None
            return a + b if n["op"] == "+" else a * b
        if k == "field":
            of, name = n.get("of"), n["name"]
            if of is None or self.prog.field_writes(of, name):
                return None
            lits = self.prog.struct_lits(of)
            vals = []
            for (g, lit) in lits:
                for fl in lit["fields"]:
                    if fl["name"] == name:
                        vals.append(self.upper_bound(g, fl["e"], set(), depth + 1))
                if "base" in lit:
                    return None
            if not vals or any(v is None for v in vals):
                return None
            return max(vals)
        if k == "var":
            vid = n["id"]
            if vid in busy:
                return None
            w = self._var_writes(f, vid)
            if w is None:
                return None
            inits, assigns = w
            if not inits:
                return None
            busy = busy | {vid}
            vals = []
            for i in inits:
                vals.append(self.upper_bound(f, i, busy, depth + 1))
            for a in assigns:
                if a["k"] != "assign":
                    return None
                vals.append(self.upper_bound(f, a["r"], busy, depth + 1))
            if any(v is None for v in vals):
                return None
            return max(vals)
        return None

    def _bound_rule(self, s):
        n = s.node
        f = s.fn
        if s.kind != "assert" or not s.what.startswith("Overflow("):
            return None
        op = s.what[len("Overflow("):-1]
        ty = peel_ty((n["l"].get("ty") if n["k"] in ("bin", "assignop") else None) or "")
        bits = self.INT_BITS.get(ty)
        if bits is None:
            return None
        # COUNT: `x += 1` / `x -= ..` on a 64-bit local whose only writes are literal inits and +=/-= literals
        if n["k"] == "assignop" and op == "Add" and n["l"]["k"] == "var" and bits >= 64 \
                and n["r"]["k"] == "lit" and n["r"]["v"].get("int") == 1:
            w = self._var_writes(f, n["l"]["id"])
            if w is not None:
                inits, assigns = w
                ok = all(i["k"] == "lit" for i in inits) and all(
                    a["k"] == "assignop" and a["r"]["k"] == "lit" and a["op"].rstrip("=") in ("+", "-") for a in assigns)
                if ok:
                    return ("COUNT", "%d-bit local event counter incremented by 1 per loop iteration: overflow needs 2^%d events" % (bits, bits))
        if op in ("Add", "Mul") and n["k"] == "bin":
            a = self.upper_bound(f, n["l"])
            b = self.upper_bound(f, n["r"])
            if a is not None and b is not None:
                v = a + b if op == "Add" else a * b
                if v < (1 << bits):
                    return ("BOUND", "operands statically bounded by %d and %d: result <= %d < 2^%d" % (a, b, v, bits))
        return None

    # ---- PROLOGUE: executed at most once per start-up task before its main loop and before any input is read
    def startup_fns(self):
        if not hasattr(self, "_startup"):
            prog = self.prog
            seen = set()
            stack = [p for p in ("node::node::Node::new", "node::main", "node::run") if p in prog.fns]
            while stack:
                p = stack.pop()
                if p in seen:
                    continue
                seen.add(p)
                g = prog.fns.get(p)
                if g is None:
                    continue
                for x in self.W.own_nodes(g):
                    if x["k"] in ("call", "mcall", "fnref") and "fn" in x:
                        for q in callee_paths(x):
                            if q in prog.fns:
                                stack.append(q)
            self._startup = seen
        return self._startup

    INPUT_READS = ("recv", "accept", "next", "read", "read_exact", "notify_read", "try_recv")

    def _prologue_pos(self, f, node):
        """node is evaluated at most once per activation of f's body / spawn closure and before any input read.
        Returns ('closure', spawn_closure) / ('fn', None) / None."""
        where = ("fn", None)
        for a in f.ancestors(node):
            k = a["k"]
            if k in ("loop", "while", "for", "select"):
                return None
            if k == "closure":
                pm = f.parents()
                par = pm.get(id(a))
                if par is not None and par["k"] == "call" and par.get("fn") == SPAWN:
                    where = ("closure", a)
                    break
                if a.get("ck") == "async":
                    continue
                return None
        flow = self.env.flow(f)
        for d in flow.dominators(node):
            if d["k"] == "mcall" and d["name"] in self.INPUT_READS and d is not node:
                if where[0] == "closure" and not any(x is d for x in ir.walk(where[1])):
                    continue
                return None
        return where

    def _prologue_ctx(self, f, node, depth=0):
        if depth > 4:
            return None
        pos = self._prologue_pos(f, node)
        if pos is None:
            return None
        if pos[0] == "closure":
            if f.path in self.startup_fns():
                return "start of the task spawned by start-up function %s" % f.path
            return None
        if f.path in self.startup_fns() and not self.W.actors_executing(f):
            return "start-up function %s" % f.path
        sites = self.prog.calls_to(f.path)
        sites = [(g, c) for (g, c) in sites if not g.derived]
        if not sites:
            return None
        why = None
        for (g, c) in sites:
            why = self._prologue_ctx(g, c, depth + 1)
            if why is None:
                return None
        return "%s <- %s" % (f.name, why)

    def _prologue_rule(self, s):
        why = self._prologue_ctx(s.fn, s.node)
        if why is None:
            return None
        return ("ENV", "task prologue: runs once before the task's main loop and before it reads any input (%s); operands are "
                       "start-up parameters" % why)

    # ---- ENV: semantic environment/config rules
    def _env_rule(self, s):
        n = s.node
        f = s.fn
        ctx = self.env.ctx(f)
        # (a) start-up code: not executed by any spawned task
        if not self.in_any_actor(s):
            return ("ENV", "start-up path (runs before any task is spawned / any network input is read)")
        if s.kind in ("unwrap", "expect") and n["k"] == "mcall":
            r = n["recv"]
            rr = r
            while rr["k"] in ("await", "try"):
                rr = rr["e"]
            rty = peel_ty(r.get("ty") or "")
            if rr["k"] == "mcall" and rr["name"] == "duration_since" and "SystemTime" in (rr["recv"].get("ty") or ""):
                return ("ENV", "system clock before UNIX_EPOCH")
            if rty.startswith("core::result::Result<") and rty.rstrip(">").endswith("rocksdb::Error"):
                return ("ENV", "RocksDB I/O error (disk fault), not network input")
            if rty.startswith("core::result::Result<") and "std::io::error::Error" in rty and rr["k"] == "mcall" and rr["name"] == "bind":
                return ("ENV", "TCP bind at start of the accept task")
        if self.config_fn(f):
            return ("ENV", "%s reads only immutable start-up configuration (fields never written after construction, no "
                           "parameters): its value and any panic are independent of network input" % f.path)
        if s.kind == "timeadd":
            if self.config_only(f, n):
                return ("ENV", "Instant + Duration built from constants/immutable configuration")
        return None

    def in_any_actor(self, s):
        if getattr(self, "all_reachable", False):
            return True     # the caller analyses functions that are by definition fed with external input
        if s.root in self.actor_universe():
            return True
        for a in self.W.actors:
            if a.fn.path not in self.universe:
                continue
            if s.root in a.reach:
                return True
            if s.root == a.fn.path and s.node is not None and any(x is s.node for x in ir.walk(a.closure)):
                return True
        # functions only reachable from Drop or handler dispatch count as in-actor
        f = s.fn
        if f.trait in ("network::receiver::MessageHandler", "core::ops::drop::Drop", "core::fmt::Display",
                       "core::fmt::Debug", "crypto::Hash", "core::future::future::Future"):
            return True
        return False

    def actor_universe(self):
        """Functions reachable from any spawned task or network dispatch handler, with the same edges as the node universe
        (call graph, trait dispatch, generic-instantiation edges such as bincode::deserialize::<T> -> T's Deserialize impl)."""
        if not hasattr(self, "_actor_universe"):
            roots = set()
            for a in self.W.actors:
                if a.fn.path in self.universe:
                    roots |= set(a.roots)
                    # callees named directly in the spawn closure (incl. generic instantiations seen in MIR of the closure)
                    for d, m in self.prog.mir.items():
                        if m["root"] == a.fn.path and d != a.fn.path:
                            for b in m["blocks"]:
                                if b["t"] == "call":
                                    for q in (b.get("fn"), b.get("inst")):
                                        if q in self.prog.fns:
                                            roots.add(q)
            for p_, f_ in self.prog.fns.items():
                if f_.trait == "network::receiver::MessageHandler":
                    roots.add(p_)
            self._actor_universe = self._universe(sorted(roots)) if roots else set()
        return self._actor_universe

    def config_fn(self, f):
        """f takes only `self`, and its whole body is config_only."""
        ps = [p for p in f.params if not (p["k"] == "pbind" and p["name"] in ("self", "__self"))]
        if ps or not f.params:
            return False
        memo = self.__dict__.setdefault("_config_fn", {})
        if f.path not in memo:
            memo[f.path] = False
            memo[f.path] = self.config_only(f, f.body, allow_cparams=True)
        return memo[f.path]

    def config_only(self, f, n, allow_cparams=False):
        dw = self.env.direct_writes()
        written = set()
        for s in dw.values():
            written |= s
        for x in ir.walk(n):
            if x["k"] == "var":
                d = self.env.ctx(f).defs.get(x["id"])
                if d and d[0][0] == "param" and d[0][1] == "self":
                    continue
                if d and d[0][0] == "expr":
                    continue
                if allow_cparams and d and d[0][0] == "cparam":
                    continue   # closure parameter of an adaptor over a config-only receiver (checked as a whole)
                return False
            if x["k"] in ("assign", "assignop"):
                return False
            if x["k"] == "field":
                if (x.get("of"), x["name"]) in written:
                    return False
            if x["k"] in ("mcall", "call"):
                for p in callee_paths(x):
                    g = self.prog.fns.get(p)
                    if g is not None and not (allow_cparams and g is not f and self.config_fn(g)):
                        return False
        return True

    # ---- AUTH(rounds): `<round> + 1` where the operand is a round of a consensus message / of Core
    ROUND_REQUIRES = ("C10.P1", "C10.P2", "C04.S1", "C04.S2", "C03.V5", "C03.V6", "C05.K3", "C05.K4", "C05.K5", "C07.Y4")

    def _is_round_term(self, f, n, depth=0):
        """n denotes a consensus round: a `.round` field of a consensus message or of Core, a local bound to one, or a
        parameter every caller of which passes one."""
        if depth > 4:
            return False
        ctx = self.env.ctx(f)
        while n["k"] in ("ref", "cast") or (n["k"] == "un" and n.get("op") == "*") or (n["k"] == "mcall" and n["name"] == "clone"):
            n = n["e"] if n["k"] != "mcall" else n["recv"]
        if n["k"] == "field" and n["name"] in ("round", "last_committed_round") and str(n.get("of", "")).startswith("consensus::"):
            return True
        if n["k"] == "var":
            d = ctx.defs.get(n["id"])
            if d and d[0][0] == "expr" and not d[1]:
                return self._is_round_term(f, d[0][1], depth + 1)
            if d and d[0][0] == "param":
                idx = next((i for i, p in enumerate(f.params) if p.get("k") == "pbind" and p.get("id") == n["id"]), None)
                sites = [(g, c) for (g, c) in self.prog.calls_to(f.path) if not g.derived]
                if idx is None or not sites:
                    return False
                for (g, c) in sites:
                    args = call_args(c)
                    if idx >= len(args) or not self._is_round_term(g, args[idx], depth + 1):
                        return False
                return True
        return False

    def _round_rule(self, s):
        n = s.node
        if s.kind != "assert" or s.what != "Overflow(Add)" or n["k"] != "bin":
            return None
        ops = [n["l"], n["r"]]
        lit = [o for o in ops if o["k"] == "lit" and (o.get("v") or {}).get("int") == 1]
        oth = [o for o in ops if o not in lit]
        if len(lit) != 1 or len(oth) != 1 or peel_ty(oth[0].get("ty") or "") != "u64":
            return None
        if not self._is_round_term(s.fn, oth[0]):
            return None
        failed = [r for r in self.ROUND_REQUIRES if not self.auth_status.get(r, False)]
        if failed:
            s.detail = "round + 1: rounds are authenticated by %s, but %s do not pass on this tree" % (list(self.ROUND_REQUIRES), failed)
            return None
        return ("AUTH", "round + 1 where the round belongs to a verified/assembled certificate, a block that passed verify, or Core's own "
                        "pacemaker state: a certified round needs f+1 honest signers who only sign their current round, and an honest "
                        "round grows by one per certificate - 2^64 is unreachable [valid while %s pass]" % ", ".join(self.ROUND_REQUIRES))

    # ---- AUTH(leader): the index / modulo inside the leader elector, whose exact shape C09.LE1 decides
    def _leader_rule(self, s):
        from .props.c09 import GET_LEADER
        if s.root != GET_LEADER:
            # `committee.address(&get_leader(..)).expect(..)` wherever it is written: the elected leader is an authority
            n = s.node
            if s.kind in ("expect", "unwrap") and n is not None and n["k"] == "mcall":
                rt = self.env.ctx(s.fn).term(n["recv"])
                if re.match(r"^self\.committee\.address\(self\.leader_elector\.get_leader\(.*\)\)$", rt):
                    if not self.auth_status.get("C09.LE1", False):
                        s.detail = "the leader's address lookup is authenticated by C09.LE1, which does not pass on this tree"
                        return None
                    return ("AUTH", "get_leader returns one of committee.authorities' keys (C09.LE1), for which address() is Some")
            return None
        if s.kind == "index" or (s.kind == "assert" and s.what in ("BoundsCheck", "RemainderByZero")):
            req = ["C09.LE1"] + (["C15.ENV-OWN-KEY"] if s.what == "RemainderByZero" else [])
            failed = [r for r in req if not self.auth_status.get(r, False)]
            if failed:
                s.detail = "leader index is authenticated by %s, but %s do not pass on this tree" % (req, failed)
                return None
            return ("AUTH", "C09.LE1 decides that the result is keys[(round [+c]) mod n] with n = number of authorities = keys.len(); the "
                            "committee contains the node's own key (start-up expect), so n >= 1 [valid while %s pass]" % ", ".join(req))
        return None

    # ---- AUTH: operand authenticated by another property's rule (table in rules/auth.toml)
    def _auth_rule(self, s):
        p = os.path.join(VERIF, "rules", "auth.toml")
        if not hasattr(self, "_auth"):
            self._auth = {}
            if os.path.exists(p):
                with open(p, "rb") as fh:
                    for e in tomllib.load(fh).get("auth", []):
                        self._auth[(e["function"], e["site"])] = e
        e = self._table_lookup(self._auth, s)
        if not e:
            return None
        e["_used"] = True
        failed = [r for r in e["requires"] if not self.auth_status.get(r, False)]
        if failed:
            s.detail = "authenticated by %s, but %s does not pass on this tree" % (e["requires"], failed)
            return None
        return ("AUTH", "%s [valid while %s pass]" % (e["reason"], ", ".join(e["requires"])))


def _atoms_with(f, sub):
    from .analysis import atoms_of
    return [a for a in atoms_of(f) if sub in a]


def must_use(n, vid):
    """Every path through n evaluates a use of variable vid (A8, structured)."""
    if not ir.is_node(n):
        return False
    k = n["k"]
    if k == "var":
        return n["id"] == vid
    if k == "block":
        for s in n.get("stmts", []):
            if must_use(s, vid):
                return True
            if diverges(s):
                return False
        return must_use(n["expr"], vid) if "expr" in n else False
    if k == "if":
        if must_use(n["c"], vid):
            return True
        return "e" in n and must_use(n["t"], vid) and must_use(n["e"], vid)
    if k == "match":
        if must_use(n["scrut"], vid):
            return True
        return bool(n["arms"]) and all(must_use(a["body"], vid) or diverges(a["body"]) for a in n["arms"]) and \
            any(must_use(a["body"], vid) for a in n["arms"])
    if k in ("loop", "while", "for", "closure"):
        if k == "for":
            return must_use(n["iter"], vid)
        if k == "while":
            return must_use(n["c"], vid)
        return False
    if k == "bin" and n["op"] in ("&&", "||"):
        return must_use(n["l"], vid)
    if k == "slet":
        return "init" in n and must_use(n["init"], vid)
    return any(must_use(c, vid) for c in ir.children(n))
