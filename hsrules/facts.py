"""Fact extraction orchestration: runs the hsfacts rustc driver over /repo's current
working tree (never executes repo code) and caches the JSON fact base per tree hash."""
import fcntl
import glob
import hashlib
import json
import os
import shutil
import subprocess
import sys
import time

VERIF = os.path.dirname(os.path.dirname(os.path.abspath(__file__)))
REPO = os.environ.get("HS_REPO", "/repo")
CACHE = os.path.join(VERIF, ".cache")
WORK = os.path.join(VERIF, ".work")
DRIVER = os.path.join(VERIF, "hsfacts", "target", "release", "hsfacts")
MEMBERS = ["store", "crypto", "network", "mempool", "consensus", "node"]
EXPECT = {
    "default": ["consensus.lib", "crypto.lib", "mempool.lib", "network.lib", "node.bin", "store.lib"],
    "benchmark": ["consensus.lib", "crypto.lib", "mempool.lib", "network.lib", "node.bin", "store.lib"],
}
CARGO_ARGS = {
    "default": ["--workspace"],
    "benchmark": ["-p", "node", "--features", "benchmark"],
}


class InfraError(Exception):
    pass


def tree_hash(repo=REPO):
    h = hashlib.sha256()
    files = []
    for root, dirs, fs in os.walk(repo):
        dirs[:] = [d for d in dirs if d not in ("target", ".git", "benchmark")]
        for f in fs:
            if f.endswith(".rs") or f in ("Cargo.toml", "Cargo.lock"):
                files.append(os.path.join(root, f))
    files.sort()
    for f in files:
        h.update(os.path.relpath(f, repo).encode())
        h.update(b"\0")
        with open(f, "rb") as fh:
            h.update(fh.read())
        h.update(b"\0")
    # the driver itself is part of the identity of the facts
    try:
        with open(DRIVER, "rb") as fh:
            h.update(hashlib.sha256(fh.read()).digest())
    except OSError:
        pass
    return h.hexdigest()[:24]


def sysroot_lib():
    out = subprocess.run(["rustc", "+nightly", "--print", "sysroot"], capture_output=True, text=True)
    if out.returncode != 0:
        raise InfraError("nightly toolchain missing: " + out.stderr)
    return os.path.join(out.stdout.strip(), "lib")


def build_driver():
    env = dict(os.environ, CARGO_NET_OFFLINE="true")
    r = subprocess.run(["cargo", "build", "--release", "--offline"], cwd=os.path.join(VERIF, "hsfacts"),
                       env=env, capture_output=True, text=True)
    if r.returncode != 0:
        raise InfraError("hsfacts build failed:\n" + r.stderr[-4000:])


def _extract(config, outdir, repo, target_dir):
    if not os.path.exists(DRIVER):
        build_driver()
    os.makedirs(outdir, exist_ok=True)
    # cargo would skip the wrapper for fresh members and replay stale output
    for m in MEMBERS:
        for p in glob.glob(os.path.join(target_dir, "debug", ".fingerprint", m + "-*")):
            shutil.rmtree(p, ignore_errors=True)
    env = dict(os.environ)
    env.update({
        "LD_LIBRARY_PATH": sysroot_lib() + ":" + env.get("LD_LIBRARY_PATH", ""),
        "HSFACTS_OUT": outdir,
        "RUSTFLAGS": "-Awarnings",
        "RUSTC_WORKSPACE_WRAPPER": DRIVER,
        "CARGO_TARGET_DIR": target_dir,
        "CARGO_NET_OFFLINE": "true",
    })
    env.pop("RUSTC_WRAPPER", None)
    cmd = ["cargo", "+nightly", "check", "--offline"] + CARGO_ARGS[config]
    r = subprocess.run(cmd, cwd=repo, env=env, capture_output=True, text=True)
    if r.returncode != 0:
        raise InfraError("cargo check (%s) failed on %s:\n%s" % (config, repo, r.stderr[-6000:]))
    missing = [x for x in EXPECT[config] if not os.path.exists(os.path.join(outdir, x + ".json"))]
    if missing:
        raise InfraError("fact files missing after extraction (%s): %s" % (config, missing))


def ensure_facts(config, repo=REPO, target_dir=None):
    """Return the directory holding the fact files of `config` for the current tree."""
    th = tree_hash(repo)
    base = os.path.join(WORK, "facts", th, config)
    marker = os.path.join(base, ".complete")
    if os.path.exists(marker):
        try:
            os.utime(os.path.dirname(base))     # "recently used": keeps a concurrent run's _prune away from it
        except OSError:
            pass
        return base, th, False
    os.makedirs(os.path.join(WORK, "facts"), exist_ok=True)
    lock = open(os.path.join(WORK, "facts", ".lock"), "w")
    fcntl.flock(lock, fcntl.LOCK_EX)
    try:
        if os.path.exists(marker):
            return base, th, False
        if os.path.isdir(base):
            shutil.rmtree(base)
        t0 = time.time()
        _extract(config, base, repo, target_dir or os.path.join(CACHE, "target"))
        with open(marker, "w") as fh:
            fh.write("%.2f\n" % (time.time() - t0))
        _prune(th)
        return base, th, True
    finally:
        fcntl.flock(lock, fcntl.LOCK_UN)
        lock.close()


def _prune(keep, n=12):
    root = os.path.join(WORK, "facts")
    ds = [d for d in os.listdir(root) if os.path.isdir(os.path.join(root, d)) and d != keep]
    ds.sort(key=lambda d: os.path.getmtime(os.path.join(root, d)))
    now = time.time()
    for d in ds[:-n] if len(ds) > n else []:
        # never remove a fact base another (concurrent) check may still be loading
        if now - os.path.getmtime(os.path.join(root, d)) > 1800:
            shutil.rmtree(os.path.join(root, d), ignore_errors=True)


def load(config, repo=REPO, target_dir=None):
    for attempt in (0, 1):
        base, th, fresh = ensure_facts(config, repo, target_dir)
        crates = {}
        try:
            for f in sorted(os.listdir(base)):
                if f.endswith(".json"):
                    with open(os.path.join(base, f)) as fh:
                        crates[f[:-5]] = json.load(fh)
            return crates, th, fresh
        except FileNotFoundError:
            # the cached fact base was pruned by a concurrent run between the marker test and the read: extract again
            if attempt:
                raise


if __name__ == "__main__":
    if len(sys.argv) > 1 and sys.argv[1] == "setup":
        build_driver()
        for c in ("default", "benchmark"):
            ensure_facts(c)
        print("facts ready", tree_hash())
