"""Rule results, evidence files, violation replay files, known-findings handling."""
import json
import os
import time

VERIF = os.path.dirname(os.path.dirname(os.path.abspath(__file__)))
KNOWN = os.path.join(VERIF, "known_findings.txt")


class Report:
    def __init__(self, pid, tier, level="other", seed=0):
        self.pid = pid
        self.tier = tier
        self.level = level
        self.seed = seed
        self.t0 = time.time()
        self.rules = []        # dicts: rule, key, ok, loc, detail
        self.violations = []   # dicts
        self.notes = []
        self.samples = []
        self.floors = []
        self.stats = {}
        self.suppressions = []
        self.assumptions = []
        self.explanation = ""
        self.trusted_base = []
        self.infra_errors = []

    # ------------------------------------------------------------------ recording
    def ok(self, rule, key, loc="", detail=""):
        self.rules.append({"rule": rule, "key": "%s|%s" % (rule, key), "ok": True, "loc": loc, "detail": detail})

    def fail(self, rule, key, loc, msg, **extra):
        full = "%s|%s" % (rule, key)
        self.rules.append({"rule": rule, "key": full, "ok": False, "loc": loc, "detail": msg})
        v = {"property": self.pid, "rule": rule, "key": full, "loc": loc, "message": msg}
        v.update(extra)
        self.violations.append(v)

    def judge(self, cond, rule, key, loc="", ok_detail="", fail_msg="", **extra):
        if cond:
            self.ok(rule, key, loc, ok_detail)
        else:
            self.fail(rule, key, loc, fail_msg or ok_detail, **extra)
        return cond

    def floor(self, rule, count, minimum, what):
        self.floors.append({"rule": rule, "count": count, "floor": minimum, "what": what})
        if count < minimum:
            self.fail(rule, "floor|" + what, "", "instance count %d below the hand-counted floor %d for: %s "
                      "(reason=anchor-missing)" % (count, minimum, what), reason="anchor-missing")
            return False
        return True

    def sample(self, obj):
        if len(self.samples) < 40:
            self.samples.append(obj)

    def note(self, text):
        self.notes.append(text)

    def stat(self, k, v):
        self.stats[k] = v

    # ------------------------------------------------------------------ finishing
    def _known(self):
        known = {}
        if os.path.exists(KNOWN):
            for line in open(KNOWN):
                line = line.strip()
                if not line.startswith("known:"):
                    continue
                parts = line[len("known:"):].strip().split(None, 2)
                kv = dict(p.split("=", 1) for p in parts[:2] if "=" in p)
                if kv.get("property") == self.pid and "key" in kv:
                    known[kv["key"]] = parts[2] if len(parts) > 2 else ""
        return known

    def finish(self):
        known = self._known()
        wall = time.time() - self.t0
        evdir = os.environ.get("HS_EVIDENCE_DIR") or os.path.join(VERIF, "evidence")
        os.makedirs(evdir, exist_ok=True)
        vdir = os.environ.get("HS_VIOLATION_DIR") or os.path.join(VERIF, ".work", "violations")
        os.makedirs(vdir, exist_ok=True)
        new_violations = []
        known_hits = []
        for v in self.violations:
            if v["key"] in known:
                known_hits.append(v)
            else:
                new_violations.append(v)
        for r in self.rules:
            print("RULE %-10s %-90s %s" % (r["rule"], r["key"].split("|", 1)[1][:90], "OK" if r["ok"] else "FAIL"))
        for n in self.notes:
            print("NOTE " + n)
        for v in known_hits:
            print("KNOWN-FINDING: property=%s %s at %s: %s" % (self.pid, v["key"], v["loc"], v["message"]))
        for i, v in enumerate(new_violations):
            path = os.path.join(vdir, "%s-%d.json" % (self.pid, i))
            with open(path, "w") as fh:
                json.dump(v, fh, indent=1)
            print("  %s: [%s] %s" % (v["loc"], v["key"], v["message"]))
            print("VIOLATION property=%s replay=%s" % (self.pid, path))
        distinct = len(set(r["key"] for r in self.rules))
        obligations = len(self.rules)
        discharged = sum(1 for r in self.rules if r["ok"])
        cov = {
            "explanation": self.explanation,
            "rule": "one evaluation per (rule, program site) instance found in the fact base of /repo's current tree; "
                    "an instance is non-trivial when the rule had a real site (call, assignment, literal, loop, field) to judge; "
                    "distinct = distinct instance keys",
            "evaluations": obligations,
            "distinct_nontrivial": distinct,
            "obligations": obligations,
            "discharged": discharged,
            "samples": self.samples[:40] or [r for r in self.rules[:10]],
            "floors": self.floors,
            "rules": [{"key": r["key"], "ok": r["ok"], "loc": r["loc"], "detail": r["detail"][:300]} for r in self.rules],
            "stats": self.stats,
            "suppressions": self.suppressions,
            "notes": self.notes,
            "known_findings_hit": [v["key"] for v in known_hits],
            "exhaustive": True,
        }
        if self.level == "proof":
            cov["checker_cmd"] = "./check %s --tier %s" % (self.pid, self.tier)
            cov["trusted_base"] = self.trusted_base
        ev = {
            "property_id": self.pid,
            "tier": self.tier,
            "seed": self.seed,
            "level": self.level,
            "coverage": cov,
            "assumptions": self.assumptions,
            "wall_s": round(wall, 3),
            "violations": len(new_violations),
        }
        with open(os.path.join(evdir, self.pid + ".json"), "w") as fh:
            json.dump(ev, fh, indent=1, sort_keys=True)
        print("SUMMARY property=%s tier=%s instances=%d ok=%d violations=%d known=%d wall=%.2fs" % (
            self.pid, self.tier, obligations, discharged, len(new_violations), len(known_hits), wall))
        return 1 if new_violations else 0
