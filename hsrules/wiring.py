"""A9 wiring graph: channels (tokio mpsc / oneshot), where their endpoints flow (context-insensitive
value flow through variables, parameters, struct fields, containers and channel payloads), the send/recv
sites of each channel, and the actors (spawned tasks) that execute them."""
from . import ir
from .analysis import STRIP_METHODS, peel_ty
from .common import Env, call_args, callee_paths
import re

_PATH_RE = re.compile(r"[A-Za-z_][A-Za-z0-9_]*(?:::[A-Za-z_][A-Za-z0-9_]*)+")

MPSC_CHANNEL = "tokio::sync::mpsc::bounded::channel"
ONESHOT_CHANNEL = "tokio::sync::oneshot::channel"
MPSC_SEND = "tokio::sync::mpsc::bounded::Sender::<T>::send"
MPSC_TRY_SEND = "tokio::sync::mpsc::bounded::Sender::<T>::try_send"
MPSC_RECV = "tokio::sync::mpsc::bounded::Receiver::<T>::recv"
ONESHOT_SEND = "tokio::sync::oneshot::Sender::<T>::send"
SPAWN = "tokio::task::spawn::spawn"


class Channel:
    def __init__(self, cid, kind, fn, node, tx_name, rx_name):
        self.id = cid
        self.kind = kind
        self.fn = fn
        self.node = node
        self.tx_name = tx_name
        self.rx_name = rx_name
        self.ty = node.get("pat", {}).get("ty")

    def __repr__(self):
        return "Chan(%s)" % self.id


class Actor:
    def __init__(self, aid, fn, node, closure):
        self.id = aid
        self.fn = fn          # function containing the spawn call
        self.node = node      # the spawn call node
        self.closure = closure
        self.reach = set()    # fn paths executed by the task
        self.roots = set()

    def __repr__(self):
        return "Actor(%s)" % self.id


class Wiring:
    def __init__(self, prog, env=None):
        self.prog = prog
        self.env = env or Env(prog)
        self.channels = {}
        self.holds = {}       # loc -> set((cid, end))
        self.actors = []
        self.send_sites = []  # (fn, node, set(cid), payload node)
        self.recv_sites = []  # (fn, node, set(cid))
        self._closure_params = {}
        self._build_channels()
        self._flow()
        self._sites()
        self._actors()

    # ------------------------------------------------------------------ channels
    def _build_channels(self):
        for f in self.prog.fns.values():
            n_in_fn = {}
            for n in f.nodes():
                if n["k"] != "slet" or "init" not in n:
                    continue
                init = n["init"]
                if init["k"] != "call" or init.get("fn") not in (MPSC_CHANNEL, ONESHOT_CHANNEL):
                    continue
                pat = n["pat"]
                if pat["k"] != "ptuple" or len(pat["pats"]) != 2:
                    continue
                a, b = pat["pats"]
                if a["k"] != "pbind" or b["k"] != "pbind":
                    continue
                kind = "mpsc" if init["fn"] == MPSC_CHANNEL else "oneshot"
                base = "%s#%s" % (f.path, a["name"])
                i = n_in_fn.get(base, 0)
                n_in_fn[base] = i + 1
                cid = base if i == 0 else "%s~%d" % (base, i)
                ch = Channel(cid, kind, f, n, a["name"], b["name"])
                ch.elem_ty = a.get("ty")
                ch.end_ty = {"tx": peel_ty(a.get("ty")), "rx": peel_ty(b.get("ty"))}
                self.channels[cid] = ch
                self._add(("var", f.path, a["id"]), {(cid, "tx")})
                self._add(("var", f.path, b["id"]), {(cid, "rx")})

    def _adt_field_types(self, path):
        """Transitive closure of field type strings of a workspace ADT."""
        memo = self.__dict__.setdefault("_adt_memo", {})
        if path in memo:
            return memo[path]
        memo[path] = set()
        out = set()
        tys = []
        s = self.prog.structs.get(path)
        if s:
            tys = [f["ty"] for f in s["fields"]]
        e = self.prog.enums.get(path)
        if e:
            tys = [f["ty"] for v in e["variants"] for f in v["fields"]]
        for t in tys:
            out.add(t)
            for m in _PATH_RE.findall(t):
                if m in self.prog.structs or m in self.prog.enums:
                    out |= self._adt_field_types(m)
        memo[path] = out
        return out

    def may_carry(self, ty, ep):
        """Can a value of static type `ty` contain channel endpoint `ep`?"""
        if ty is None:
            return True
        cid, end = ep
        want = self.channels[cid].end_ty[end]
        if want in ty:
            return True
        for m in _PATH_RE.findall(ty):
            if m in self.prog.structs or m in self.prog.enums:
                for ft in self._adt_field_types(m):
                    if want in ft:
                        return True
        return False

    def _filter(self, eps, ty):
        if not eps or ty is None:
            return eps
        return {e for e in eps if self.may_carry(ty, e)}

    def _loc_ty(self, loc):
        if loc[0] == "field":
            s = self.prog.structs.get(loc[1])
            if s:
                for f in s["fields"]:
                    if f["name"] == loc[2]:
                        return f["ty"]
            return None
        if loc[0] == "chan":
            t = self.channels[loc[1]].end_ty["tx"]
            return t[t.index("<") + 1:-1] if "<" in t else None
        if loc[0] == "ret":
            f = self.prog.fns.get(loc[1])
            return f.ret if f is not None else None
        if loc[0] == "param":
            f = self.prog.fns.get(loc[1])
            if f is not None and loc[2] < len(f.params):
                return f.params[loc[2]].get("ty")
        return None

    def _add(self, loc, eps, ty=None):
        if not eps:
            return False
        eps = self._filter(eps, ty if ty is not None else self._loc_ty(loc))
        if not eps:
            return False
        cur = self.holds.setdefault(loc, set())
        before = len(cur)
        cur |= eps
        return len(cur) != before

    # ------------------------------------------------------------------ endpoint evaluation
    def ep(self, f, n, depth=0):
        """Set of channel endpoints an expression may carry (filtered by the expression's static type)."""
        if n is None or depth > 60:
            return set()
        return self._filter(self._ep(f, n, depth), n.get("ty"))

    def _ep(self, f, n, depth=0):
        k = n["k"]
        if k == "var":
            return set(self.holds.get(("var", f.path, n["id"]), ()))
        if k == "field":
            s = set(self.holds.get(("field", n.get("of"), n["name"]), ()))
            if n["name"].isdigit():  # tuple field: carry the tuple's endpoints
                s |= self.ep(f, n["e"], depth + 1)
            return s
        if k in ("ref", "try", "await", "cast", "un"):
            return self.ep(f, n["e"], depth + 1)
        if k == "mcall":
            paths = callee_paths(n)
            if any(p in (MPSC_SEND, ONESHOT_SEND, MPSC_TRY_SEND) for p in paths):
                return set()
            if MPSC_RECV in paths:
                out = set()
                for (cid, end) in self.ep(f, n["recv"], depth + 1):
                    if end == "rx":
                        out |= self.holds.get(("chan", cid), set())
                return out
            local = [p for p in paths if p in self.prog.fns]
            if local:
                out = set()
                for p in local:
                    out |= self.holds.get(("ret", p), set())
                return out
            out = self.ep(f, n["recv"], depth + 1)
            for a in n["args"]:
                if a["k"] != "closure":
                    out |= self.ep(f, a, depth + 1)
                else:
                    out |= self.holds.get(("cret", id(a)), set())
            return out
        if k == "call":
            paths = callee_paths(n)
            local = [p for p in paths if p in self.prog.fns]
            if local:
                out = set()
                for p in local:
                    out |= self.holds.get(("ret", p), set())
                return out
            out = set()
            for a in n["args"]:
                if a["k"] != "closure":
                    out |= self.ep(f, a, depth + 1)
            return out
        if k in ("ctor", "tup", "array"):
            out = set()
            for a in (n.get("args") or n.get("es") or []):
                out |= self.ep(f, a, depth + 1)
            return out
        if k == "struct":
            out = set()
            for fl in n["fields"]:
                out |= self.ep(f, fl["e"], depth + 1)
            return out
        if k == "block":
            return self.ep(f, n["expr"], depth + 1) if "expr" in n else set()
        if k == "if":
            return self.ep(f, n["t"], depth + 1) | (self.ep(f, n["e"], depth + 1) if "e" in n else set())
        if k == "match":
            out = set()
            for a in n["arms"]:
                out |= self.ep(f, a["body"], depth + 1)
            return out
        if k == "index":
            return self.ep(f, n["e"], depth + 1)
        return set()

    def _bind_pat(self, f, pat, eps):
        ch = False
        for p in ir.walk(pat):
            if p["k"] == "pbind":
                ch |= self._add(("var", f.path, p["id"]), eps, p.get("ty") or "?")
        return ch

    def _root_loc(self, f, n):
        while True:
            k = n["k"]
            if k == "var":
                return ("var", f.path, n["id"])
            if k == "field":
                if n["name"].isdigit():
                    n = n["e"]
                    continue
                return ("field", n.get("of"), n["name"])
            if k in ("ref", "index", "try", "await", "cast") or (k == "un"):
                n = n["e"]
                continue
            if k == "mcall":
                n = n["recv"]
                continue
            return None

    def _flow(self):
        prog = self.prog
        fns = list(prog.fns.values())
        changed = True
        rounds = 0
        while changed and rounds < 40:
            changed = False
            rounds += 1
            for f in fns:
                # parameters: ("param", path, i) -> bound vars
                for i, p in enumerate(f.params):
                    eps = self.holds.get(("param", f.path, i))
                    if eps:
                        changed |= self._bind_pat(f, p, eps)
                for n in f.nodes():
                    k = n["k"]
                    if k == "slet" and "init" in n:
                        init = n["init"]
                        pat = n["pat"]
                        if pat["k"] == "ptuple" and init["k"] == "tup" and len(pat["pats"]) == len(init["es"]):
                            for sp, se in zip(pat["pats"], init["es"]):
                                changed |= self._bind_pat(f, sp, self.ep(f, se))
                        elif init["k"] == "call" and init.get("fn") in (MPSC_CHANNEL, ONESHOT_CHANNEL):
                            pass
                        else:
                            changed |= self._bind_pat(f, pat, self.ep(f, init))
                    elif k == "let":
                        changed |= self._bind_pat(f, n["pat"], self.ep(f, n["init"]))
                    elif k == "match":
                        eps = self.ep(f, n["scrut"])
                        if eps:
                            for a in n["arms"]:
                                changed |= self._bind_pat(f, a["pat"], eps)
                    elif k == "for":
                        changed |= self._bind_pat(f, n["pat"], self.ep(f, n["iter"]))
                    elif k == "select":
                        for b in n["branches"]:
                            if b.get("pat") is not None and b.get("fut") is not None:
                                changed |= self._bind_pat(f, b["pat"], self.ep(f, b["fut"]))
                    elif k in ("assign", "assignop"):
                        loc = self._root_loc(f, n["l"])
                        if loc:
                            changed |= self._add(loc, self.ep(f, n["r"]))
                    elif k == "struct":
                        for fl in n["fields"]:
                            changed |= self._add(("field", n["path"], fl["name"]), self.ep(f, fl["e"]))
                    elif k == "ret" and "e" in n:
                        changed |= self._add(("ret", f.path), self.ep(f, n["e"]))
                    elif k in ("call", "mcall"):
                        paths = callee_paths(n)
                        args = call_args(n)
                        for p in paths:
                            if p in prog.fns:
                                for i, a in enumerate(args):
                                    changed |= self._add(("param", p, i), self.ep(f, a))
                        if k == "mcall":
                            if any(p in (MPSC_SEND, MPSC_TRY_SEND) for p in paths) and n["args"]:
                                pay = self.ep(f, n["args"][0])
                                for (cid, end) in self.ep(f, n["recv"]):
                                    if end == "tx":
                                        changed |= self._add(("chan", cid), pay)
                            elif not any(p in prog.fns for p in paths):
                                # library container mutators: arguments flow into the receiver's root location
                                if n["name"] in ("insert", "push", "push_back", "push_front", "or_insert",
                                                 "or_insert_with", "extend", "append", "replace"):
                                    loc = self._root_loc(f, n["recv"])
                                    eps = set()
                                    for a in n["args"]:
                                        if a["k"] == "closure":
                                            eps |= self.holds.get(("cret", id(a)), set())
                                        else:
                                            eps |= self.ep(f, a)
                                    if loc:
                                        changed |= self._add(loc, eps)
                                # closure parameters of adaptors receive the receiver's endpoints
                                for a in n["args"]:
                                    if a["k"] == "closure":
                                        eps = self.ep(f, n["recv"])
                                        for p in a.get("params", []):
                                            changed |= self._bind_pat(f, p, eps)
                    elif k == "closure":
                        body = n["body"]
                        tail = body
                        eps = self.ep(f, tail)
                        changed |= self._add(("cret", id(n)), eps)
                # function return value
                if f.body["k"] == "block" and "expr" in f.body:
                    changed |= self._add(("ret", f.path), self.ep(f, f.body["expr"]))

    # ------------------------------------------------------------------ send / recv sites
    def _sites(self):
        for f in self.prog.fns.values():
            for n in f.nodes():
                if n["k"] == "mcall":
                    paths = callee_paths(n)
                    if any(p in (MPSC_SEND, MPSC_TRY_SEND, ONESHOT_SEND) for p in paths):
                        chans = {cid for (cid, end) in self.ep(f, n["recv"]) if end == "tx"}
                        self.send_sites.append((f, n, chans, n["args"][0] if n["args"] else None))
                    elif MPSC_RECV in paths:
                        chans = {cid for (cid, end) in self.ep(f, n["recv"]) if end == "rx"}
                        self.recv_sites.append((f, n, chans))
                elif n["k"] == "await":
                    eps = self.ep(f, n["e"]) if n["e"]["k"] in ("var", "field") else set()
                    chans = {cid for (cid, end) in eps if end == "rx" and self.channels[cid].kind == "oneshot"}
                    if chans and "oneshot::Receiver" in (n["e"].get("ty") or ""):
                        self.recv_sites.append((f, n, chans))

    # ------------------------------------------------------------------ actors
    def _actors(self):
        env = self.env
        cg = env.callgraph()
        # trait-dispatch edges: unresolved calls to workspace trait methods -> all impls
        trait_impls = {}
        for p, f in self.prog.fns.items():
            if f.trait:
                trait_impls.setdefault((f.trait, f.name), []).append(p)
        for f in self.prog.fns.values():
            count = {}
            for n in f.nodes():
                if n["k"] == "call" and n.get("fn") == SPAWN and n["args"] and n["args"][0]["k"] == "closure":
                    i = count.get(f.path, 0)
                    count[f.path] = i + 1
                    aid = f.path if i == 0 else "%s~%d" % (f.path, i)
                    a = Actor(aid, f, n, n["args"][0])
                    roots = set()
                    for x in ir.walk(a.closure):
                        if x["k"] in ("call", "mcall", "fnref") and "fn" in x:
                            for p in callee_paths(x):
                                if p in self.prog.fns:
                                    roots.add(p)
                            if "inst" not in x:
                                tr = x["fn"].rsplit("::", 1)
                                for (t, m), impls in trait_impls.items():
                                    if x["fn"] == t + "::" + m:
                                        roots.update(impls)
                    a.roots = roots
                    a.reach = self._reach_with_traits(roots, trait_impls)
                    self.actors.append(a)

    def own_nodes(self, f):
        """Nodes of f executed by the task that calls f (excludes bodies of closures handed to tokio::spawn)."""
        stack = [f.body]
        while stack:
            x = stack.pop()
            if not ir.is_node(x):
                continue
            yield x
            if x["k"] == "call" and x.get("fn") == SPAWN:
                continue
            stack.extend(reversed(list(ir.children(x))))

    def _reach_with_traits(self, roots, trait_impls):
        seen = set()
        stack = list(roots)
        while stack:
            p = stack.pop()
            if p in seen:
                continue
            seen.add(p)
            f = self.prog.fns.get(p)
            if f is None:
                continue
            for x in self.own_nodes(f):
                if x["k"] in ("call", "mcall", "fnref") and "fn" in x:
                    for q in callee_paths(x):
                        if q in self.prog.fns:
                            stack.append(q)
                    if "inst" not in x:
                        for (t, m), impls in trait_impls.items():
                            if x["fn"] == t + "::" + m:
                                stack.extend(impls)
        return seen

    # ------------------------------------------------------------------ queries
    def actor_nodes(self, a):
        """All (fn, node) executed by the actor: its closure body plus bodies of reachable fns."""
        for n in ir.walk(a.closure):
            yield a.fn, n
        for p in sorted(a.reach):
            f = self.prog.fns[p]
            for n in self.own_nodes(f):
                yield f, n

    def actors_executing(self, f, node=None):
        out = []
        for a in self.actors:
            if a.fn is f and node is not None and any(x is node for x in ir.walk(a.closure)):
                out.append(a)
            elif f.path in a.reach and (node is None or any(x is node for x in self.own_nodes(f))):
                out.append(a)
        return out

    def senders_of(self, cid):
        return [(f, n, p) for (f, n, cs, p) in self.send_sites if cid in cs]

    def receivers_of(self, cid):
        return [(f, n) for (f, n, cs) in self.recv_sites if cid in cs]

    def consumers(self, cid):
        out = []
        for (f, n) in self.receivers_of(cid):
            acts = self.actors_executing(f, n)
            out.append((f, n, acts))
        return out

    def locs_holding(self, cid, end):
        return [loc for loc, eps in self.holds.items() if (cid, end) in eps]
