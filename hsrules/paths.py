"""Structured path enumeration (A8 support): all control-flow paths through a statement/expression tree of the
normalised IR, each with the branch conditions taken, the call-like events evaluated (in order) and how it ends.

exit kinds: "fall" (control continues after the node), "break", "continue", "ret", "panic".
Inner loops are summarised: zero-or-more iterations are represented by (a) skipping the loop and (b) one pass through its
body, with `loops` recording that the path crossed a loop (callers that need exactness treat such paths as undecidable
unless the loop body has no relevant events)."""
from . import ir
from .analysis import And, Not, T, diverges

MAX_PATHS = 4000


class Path:
    __slots__ = ("conds", "events", "exit", "label", "loops")

    def __init__(self, conds=(), events=(), exit="fall", label=None, loops=()):
        self.conds = tuple(conds)
        self.events = tuple(events)
        self.exit = exit
        self.label = label
        self.loops = tuple(loops)

    def then(self, other):
        return Path(self.conds + other.conds, self.events + other.events, other.exit, other.label, self.loops + other.loops)

    def cond(self):
        return And(*self.conds) if self.conds else T


class TooManyPaths(Exception):
    pass


def _seq(paths_a, fn_b):
    out = []
    for p in paths_a:
        if p.exit != "fall":
            out.append(p)
            continue
        for q in fn_b():
            out.append(p.then(q))
            if len(out) > MAX_PATHS:
                raise TooManyPaths()
    return out


def enum_paths(ctx, n):
    """All paths through node n. Events are IR nodes of kind mcall/call/await/try/panic."""
    if n is None or not ir.is_node(n):
        return [Path()]
    k = n["k"]
    if k == "block":
        paths = [Path()]
        for s in n.get("stmts", []):
            paths = _seq(paths, lambda s=s: enum_paths(ctx, s))
        if "expr" in n:
            paths = _seq(paths, lambda: enum_paths(ctx, n["expr"]))
        return paths
    if k == "slet":
        paths = enum_paths(ctx, n["init"]) if "init" in n else [Path()]
        if "els" in n and "init" in n:
            t = ctx.pat_test(n["pat"], ctx.term(n["init"]))
            out = []
            for p in paths:
                if p.exit != "fall":
                    out.append(p)
                    continue
                out.append(p.then(Path(conds=[t])))
                for q in enum_paths(ctx, n["els"]):
                    out.append(p.then(Path(conds=[Not(t)])).then(q))
            return out
        return paths
    if k == "if":
        c = n["c"]
        cf = ctx.formula(c)
        pre = enum_paths(ctx, c["init"]) if c["k"] == "let" else enum_paths(ctx, c)
        out = []
        for p in pre:
            if p.exit != "fall":
                out.append(p)
                continue
            for q in enum_paths(ctx, n["t"]):
                out.append(p.then(Path(conds=[cf])).then(q))
            if "e" in n:
                for q in enum_paths(ctx, n["e"]):
                    out.append(p.then(Path(conds=[Not(cf)])).then(q))
            else:
                out.append(p.then(Path(conds=[Not(cf)])))
        return out
    if k == "match":
        pre = enum_paths(ctx, n["scrut"])
        st = ctx.term(n["scrut"])
        out = []
        for p in pre:
            if p.exit != "fall":
                out.append(p)
                continue
            earlier = []
            for a in n["arms"]:
                t = ctx.pat_test(a["pat"], st)
                conds = [t] + [Not(e) for e in earlier]
                if "guard" in a:
                    conds.append(ctx.formula(a["guard"]))
                else:
                    earlier.append(t)
                for q in enum_paths(ctx, a["body"]):
                    out.append(p.then(Path(conds=conds)).then(q))
        return out
    if k == "select":
        out = []
        for b in n["branches"]:
            pre = enum_paths(ctx, b["fut"]) if b.get("fut") is not None else [Path()]
            conds = []
            if b.get("pat") is not None and b.get("fut") is not None:
                conds = [ctx.pat_test(b["pat"], "sel(" + ctx.term(b["fut"]) + ")")]
            for p in pre:
                for q in enum_paths(ctx, b["body"]):
                    out.append(p.then(Path(conds=conds)).then(q))
        if n.get("else") is not None:
            out.extend(enum_paths(ctx, n["else"]))
        return out
    if k in ("loop", "while", "for"):
        body = n["body"]
        head = []
        cf = None
        if k == "while":
            c = n["c"]
            cf = ctx.formula(c)
            head = enum_paths(ctx, c["init"]) if c["k"] == "let" else enum_paths(ctx, c)
        elif k == "for":
            head = enum_paths(ctx, n["iter"])
        else:
            head = [Path()]
        out = []
        label = n.get("label")
        for h in head:
            if h.exit != "fall":
                out.append(h)
                continue
            if k != "loop":
                out.append(h.then(Path(conds=[Not(cf)] if cf is not None else [], loops=[n])))        # loop condition fails
            if cf is not None:
                h = h.then(Path(conds=[cf]))
            for q in enum_paths(ctx, body):
                # break/continue targeting this loop end the loop (as far as the enclosing scope is concerned)
                if q.exit in ("break", "continue") and (q.label is None or q.label == label):
                    out.append(h.then(Path(loops=[n])).then(Path(q.conds, q.events, "fall", None, q.loops)))
                elif q.exit == "fall":
                    if k == "loop":
                        continue   # falls to the next iteration; exits are represented by the break paths
                    out.append(h.then(Path(loops=[n])).then(q))
                else:
                    out.append(h.then(Path(loops=[n])).then(q))
        return out
    if k == "break":
        pre = enum_paths(ctx, n["e"]) if n.get("e") is not None else [Path()]
        return [p.then(Path(exit="break", label=n.get("label"))) if p.exit == "fall" else p for p in pre]
    if k == "continue":
        return [Path(exit="continue", label=n.get("label"))]
    if k == "ret":
        pre = enum_paths(ctx, n["e"]) if n.get("e") is not None else [Path()]
        return [p.then(Path(exit="ret")) if p.exit == "fall" else p for p in pre]
    if k == "panic":
        return [Path(events=[n], exit="panic")]
    if k == "closure":
        return [Path()]
    if k == "log":
        return [Path()]
    if k == "bin" and n["op"] in ("&&", "||"):
        lf = ctx.formula(n["l"])
        out = []
        for p in enum_paths(ctx, n["l"]):
            if p.exit != "fall":
                out.append(p)
                continue
            short = Not(lf) if n["op"] == "&&" else lf
            out.append(p.then(Path(conds=[short])))
            for q in enum_paths(ctx, n["r"]):
                out.append(p.then(Path(conds=[Not(short)])).then(q))
        return out
    # generic expression: children in evaluation order, then the node itself as an event
    paths = [Path()]
    for c in ir.children(n):
        if c.get("k", "").startswith("p") and c["k"] in ("pbind", "pwild", "ptstruct", "pstruct", "ptuple", "pref", "pderef", "pexpr", "por"):
            continue
        paths = _seq(paths, lambda c=c: enum_paths(ctx, c))
    if k in ("mcall", "call", "await", "try", "assign", "assignop"):
        ev = Path(events=[n])
        paths = [p.then(ev) if p.exit == "fall" else p for p in paths]
        if k == "try":
            ok = [p for p in paths if p.exit == "fall"]
            from .analysis import Atom, peel_ty, strip_ok_wrappers
            inner = strip_ok_wrappers(n["e"])
            ty = peel_ty(n["e"].get("ty", ""))
            a = Atom(("some(%s)" if ty.startswith("core::option::Option") else "ok(%s)") % ctx.term(inner))
            extra = [Path(p.conds + (Not(a),), p.events, "ret", "?err", p.loops) for p in ok]     # label "?err": error propagation
            paths = [Path(p.conds + (a,), p.events, p.exit, p.label, p.loops) if p.exit == "fall" else p for p in paths] + extra
    return paths
